#!/usr/bin/env python3
"""tools/mkreplay.py <ID> <name> <kind> '<case json>' [rendered]  -> replays/<ID>/<name>.json"""
import json, sys
from pathlib import Path
ROOT = Path(__file__).resolve().parent.parent
pid, name, kind, case = sys.argv[1:5]
d = ROOT / "replays" / pid
d.mkdir(parents=True, exist_ok=True)
body = {"property": pid, "kind": kind, "seed": 0, "tier": "regression", "case": json.loads(case),
        "rendered": sys.argv[5] if len(sys.argv) > 5 else None, "expected": None, "observed": None}
(d / f"{name}.json").write_text(json.dumps(body, indent=1) + "\n")
print(d / f"{name}.json")

add("C01", "Hypothesis-generated .dec ASTs rendered with drawn layout vs reference interpreter over the AST",
    "Random search over the statement language (structure first, text second) with an oracle that never parses text; every table, line and field compared in both directions. Sampling, not proof: the class histogram in the evidence shows where samples fell.",
    "Trusted: the reference interpreter pbt/decref.py (about 200 lines, written from the property statement), the renderer, Hypothesis, the particle package's name tables as a label source.",
    "DESIGN.md 4 C01")

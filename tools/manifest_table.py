add("C01", "Hypothesis-generated .dec ASTs rendered with drawn layout vs reference interpreter over the AST",
    "Random search over the statement language (structure first, text second) with an oracle that never parses text; every table, line and field compared in both directions. Sampling, not proof: the class histogram in the evidence shows where samples fell.",
    "Trusted: the reference interpreter pbt/decref.py (about 200 lines, written from the property statement), the renderer, Hypothesis, the particle package's name tables as a label source.",
    "DESIGN.md 4 C01")
add("C04", "exhaustive enumeration of the EvtGen and PDG name tables + Hypothesis final states/decay modes vs PDG-ID reference; cross-layer check through CDecay",
    "The two name tables are enumerated completely (exhaustive for the installed particle data); final states, decay modes and the CDecay route are sampled with Hypothesis against a multiset image computed from the ID tables.",
    "Trusted: particle's EvtGenName2PDGIDBiMap / PDG2EvtGenNameMap / EvtGen2PDGNameMap and Particle.is_self_conjugate.",
    "DESIGN.md 4 C04")
add("C06", "exhaustive enumeration of the 135 model names x position contexts and all prefix pairs + Hypothesis user-registered names / near-miss words",
    "Every published name in every position context and every prefix pair is parsed and compared (exhaustive over that finite space, with 4 fixed sets of registered names); registered-name combinations, registration timing and rejection of near-miss words are sampled.",
    "Trusted: pinned list pbt/data/models.txt; the lexical rules of DESIGN.md 3.1 for building safe neighbouring labels.",
    "DESIGN.md 4 C06")
add("C03", "Hypothesis-generated Decay/Alias/ChargeConj/CopyDecay/CDecay webs vs reference interpreter with conjugation from the particle ID tables",
    "Random search over statement webs and both values of the switch; every table (sources included), line and field compared with a reference that conjugates through ChargeConj pairs read both ways and PDG-ID negation.",
    "Trusted: pbt/decref.py, particle ID tables. Excluded by construction (stated in rule): unclean ChargeConj webs, CDecay of real self-conjugate particles, copies of copies.",
    "DESIGN.md 4 C03")
add("C05", "metamorphic (file vs its AST-level textual expansion) + reference interpreter, Hypothesis-generated Define/ModelAlias placements",
    "Each generated file is parsed next to its own expansion (every Define'd name and alias substituted in the AST) and both are compared with the reference; placements, redefinitions, negation and multi-use are sampled.",
    "Trusted: pbt/decref.py and the expansion function in pbt/props/C05.py (40 lines).",
    "DESIGN.md 4 C05")
add("C07", "Hypothesis-generated declaration files vs reference dictionaries (values and value types)",
    "All sixteen declaration kinds in any order with repeated names; the eleven queries are compared exactly, including int/float/str/bool typing, the later-wins rule, the lineshape-repeat error and the GeV reference width.",
    "Trusted: pbt/decref.declarations, particle package widths.",
    "DESIGN.md 4 C07")
add("C09", "Hypothesis-generated acyclic table sets x stable sets vs recursive reference; shipped master files against an independent recursion",
    "The recursion, per-position replacement and stable-set cut are recomputed from the AST for every mother and several stable sets per file; for the two master files every checked mother's chain is recomputed from per-line tables.",
    "Trusted: pbt/decref.chain; for shipped files the per-line tables come from the implementation (validated by C01).",
    "DESIGN.md 4 C09")
add("C10", "Hypothesis-generated acyclic table sets: path count + multiset of bracket-read descriptor trees vs reference enumeration; shipped files",
    "Length and content (as a multiset of trees read back by bracket matching) of expand_decay_modes are compared with an independent enumeration for every mother below a size bound.",
    "Trusted: pbt/decref.paths/count_paths and the bracket reader pbt/chains.read_descriptor; names with balanced parentheses only.",
    "DESIGN.md 4 C10")
add("C16", "Hypothesis-generated tables x all print options; stdout parsed row-wise vs reference ordering/scaling arithmetic",
    "Every option combination is sampled against a reference for row content, ordering (ties), factor arithmetic, refusals and non-mutation.",
    "Trusted: the row splitter (fields separated by >=2 blanks).",
    "DESIGN.md 4 C16")
add("C02", "metamorphic: snapshot of every public query before/after random compositions of layout rewrites and file packagings (Hypothesis), over generated files, all tests/data files and master-file chunks",
    "Two inputs that must mean the same are parsed and every public query compared; the rewrite positions, kinds and packaging (string / file / split files, BOM, End, missing final newline, empty file) are drawn by Hypothesis.",
    "Trusted: pbt/rewrite.py (text-level rewriter, own tokeniser) and the generator's layout renderer apply only the edits C02 lists; equal snapshots on all fixtures of the unchanged tree support that.",
    "DESIGN.md 4 C02")
add("C08", "Hypothesis rule-based state machine over query/mutate/reparse histories vs the snapshot of a fresh instance; object-disjointness invariant for derived tables",
    "Histories of up to 30 public calls (with recursive in-place mutation of every returned structure and re-parsing) are generated and shrunk as one value; after each step every public query is compared with a freshly parsed instance; copy/conjugate tables are compared with the reference and must not share Tree/Token objects with their source.",
    "Trusted: pbt/decref.all_tables, snapshot.py. Reads the private list _parsed_decays (never writes it) for the sharing invariant.",
    "DESIGN.md 4 C08")
add("C11", "round trips: exhaustive chain shapes and all PDG IDs, Hypothesis chains/modes/final states with JSON-like metadata, parser-produced single-line chains",
    "to_dict/from_dict round trips are checked field by field for every small shape (exhaustive) and for generated chains with metadata; the four final-state constructors are cross-checked; parser chains are converted to the class form and back.",
    "Trusted: Counter-based reference of final states; particle's EvtGen name <-> PDG ID table.",
    "DESIGN.md 4 C11")
add("C12", "exhaustive enumeration of tree shapes x permutations of the mapping x stable subsets + Hypothesis larger chains vs recursive leaf/product walk",
    "The fix-point loop is compared with a recursive walk on every shape up to the bound, for every supply order and every stable subset (exhaustive for that space), and on generated larger chains.",
    "Trusted: pbt/chains.ref_flatten (15 lines); relative tolerance 1e-9 on products.",
    "DESIGN.md 4 C12")
add("C13", "round trip: descriptor string read back by a bracket-matching reader, exhaustive small shapes x supply orders + Hypothesis chains x pattern family",
    "Injectivity/canonicity of the rendering is decided by reading the string back into a tree and comparing with the tree the chain was built from, for all small shapes in all supply orders and for generated chains under a family of user patterns.",
    "Trusted: pbt/chains.read_descriptor and read_postfix; names with balanced parentheses only.",
    "DESIGN.md 4 C13")
add("C14", "exhaustive enumeration of short call histories against a stack model + Hypothesis rule-based machine over a generated pattern language",
    "All histories up to the length bound over a 13-operation alphabet (create / enter / leave normally or by exception / set valid or invalid / render) are executed and compared with a stack model; long histories and arbitrary patterns are sampled with a state machine.",
    "Trusted: the stack model (30 lines), Python's str.format as reference renderer.",
    "DESIGN.md 4 C14")
add("C15", "round trip through Graphviz's own JSON export: rooted port-labelled tree of the DOT source vs an independent walk over the chain dictionary, sessions of several viewers",
    "Generated chain dictionaries (parser-built and class-built) are rendered, read back by `dot -Tjson0` (which also decides acceptance) and compared as trees up to node identifiers; identifier uniqueness is checked across the graphs of a session.",
    "Trusted: Graphviz dot 2.43, particle's EvtGen->LaTeX->HTML name conversion for cell texts.",
    "DESIGN.md 4 C15")
add("C17", "Hypothesis-generated AmpGen option ASTs rendered to text vs reference expansion (cartesian product over separately given sub-lines), pinned particle pool",
    "Option texts are generated structure-first; event type, parameter/constant tables, the full expansion in file order, tags and couplings at every node are compared with a reference computed from the AST.",
    "Trusted: pbt/ampgen.ref_read/ref_expand, the hand-verified name->PDG-ID pool, particle's str(). Lookup memo per worker (pure function of its key).",
    "DESIGN.md 4 C17")
add("C18", "exhaustive enumeration of tree shapes x leaf kinds x event-type orderings for the permutation set; Hypothesis four-body option files x both back ends, generated code parsed and compared per permutation",
    "The permutation sets are enumerated completely for up to 4 leaves; the emitted spin factors, lineshapes (kind, L, mass indices) and counts are parsed from the generated text of both languages and compared with an independent prediction for every supported spin structure.",
    "Trusted: brute-force permutation reference, the enum table transcribed from upstream's pinned reference output (cross-checked at run time), spin classes of the pinned pool, the regex reader pbt/goofit_read.py.",
    "DESIGN.md 4 C18")
add("C19", "differential between the two back ends: C++ text read by a regex/bracket reader vs Python text executed against a recording stand-in for goofit; shipped model + Hypothesis four-body files; print-vs-string and command-line comparisons",
    "Both outputs of the same input are reduced to model records (constants, variables with fixedness, arrays, amplitudes with coefficients, spin factors, lineshapes) and compared field by field; declared-before-use is checked in both; the Python text is compiled and run.",
    "Trusted: pbt/goofit_read.py, pbt/stub/goofit.py (names and call shapes of the GooFit API only; GooFit itself is not installed). K-matrix scalars the input does not define may stay undeclared (the property is conditional).",
    "DESIGN.md 4 C19")
add("C20", "Hypothesis-generated call histories executed in forked children vs single calls in fresh interpreters (differential); fresh interpreters across PYTHONHASHSEED values",
    "Every step of a generated history over three reader classes, two converters and six option files is compared with the same call made alone in a fresh interpreter; cold and warm starting states; reproducibility for a fixed hash seed and multiset equality across five hash seeds.",
    "Trusted: subprocess isolation as the definition of 'fresh'; multiset-of-lines comparison encodes 'relative order of independent declarations is ignored'. Lookup memo only in warm children.",
    "DESIGN.md 4 C20")

#!/usr/bin/env python3
"""tools/sweep2md.py <seedsweep.log> > seeded/RESULTS.md"""
import json, os, sys, subprocess
from pathlib import Path
ROOT = Path(__file__).resolve().parent.parent
rows = []
for line in open(sys.argv[1]):
    parts = line.split()
    if not parts or "-m" not in parts[0]:
        continue
    name, rc = parts[0], parts[1].split("=")[1]
    kinds = [p[5:] for p in parts if p.startswith("kind=")]
    wall = next((p for p in parts if p.startswith("wall=")), "")
    try:
        meta = json.load(open(ROOT / "seeded" / name / "meta.json"))
    except Exception:
        meta = {}
    rows.append((name, rc, wall, kinds, str(meta.get("summary", ""))[:160].replace("|", "/").replace("\n", " ")))
head = subprocess.check_output(["git", "-C", "/repo", "rev-parse", "--short", "HEAD"]).decode().strip()
print(f"# Seeded changes vs `./check <ID> quick` (VERIF_SEED={os.environ.get('VERIF_SEED', '1')}), /repo HEAD {head}\n")
print("Produced by `tools/seedsweep.sh` + `tools/sweep2md.py`; exit 1 = VIOLATION reported (the change is caught).\n")
print("| change | exit | wall | root-cause kinds reported | summary (from the sub-agent's meta.json) |")
print("|---|---|---|---|---|")
rows.sort(key=lambda r: (r[0].split("-m")[0], int(r[0].split("-m")[1])))
for name, rc, wall, kinds, summ in rows:
    print(f"| {name} | {rc} | {wall[5:]} | {', '.join(kinds)} | {summ} |")
caught = sum(1 for r in rows if r[1] == "1")
print(f"\n{caught} of {len(rows)} caught"
      + (f" ({len(list((ROOT / 'seeded').glob('C*-m*')))} changes exist; the sweep was cut short by the time budget, machine shared with other jobs)."
         if len(rows) < len(list((ROOT / 'seeded').glob('C*-m*'))) else "."))
print("Not caught by design (DESIGN.md 6.26 / 10.1): C17-m3, C17-m7, C19-m12, C11-m13, C15-m13, C03-m18; C10-m10 and C10-m17 are caught by C14.")

#!/bin/bash
# tools/quiet.sh "<IDs>" "<seeds>" [tier]  -- run checks on the unchanged tree for several seeds; print one line per run
cd "$(dirname "$0")/.."
TIER=${3:-quick}
for id in $1; do for s in $2; do
  out=$(VERIF_EVIDENCE_DIR=/tmp/evid_quiet VERIF_SEED=$s ./check $id $TIER 2>&1); rc=$?
  echo "rc=$rc $(echo "$out" | grep -E '^\[' | tail -1) $(echo "$out" | grep -c -E 'VIOLATION|HARNESS-ERROR|KNOWN-FINDING') alarm-lines"
  [ $rc -ne 0 ] && echo "$out" | grep -E "VIOLATION|kind=|HARNESS" | head -5
done; done

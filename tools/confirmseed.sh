#!/bin/bash
# tools/confirmseed.sh <srcdir with patch.diff demo.py meta.json> <ID> <name>
# Confirms a seeded change in a scratch worktree of /repo HEAD: patch applies, demo fails with it and passes without it,
# the existing test suite still passes with it (only the two baseline always-fail tests may fail).
# On success copies it to /verif/seeded/<ID>-<name>/ with the confirmation recorded in meta.json.
SRC=$(readlink -f "$1"); ID=$2; NAME=$3
ROOT=$(cd "$(dirname "$0")/.." && pwd)
WT=/tmp/wt/confirm_$$
git -C /repo worktree add --detach $WT HEAD >/dev/null 2>&1 || exit 3
cp /repo/src/decaylanguage/_version.py $WT/src/decaylanguage/
cleanup() { git -C /repo worktree remove --force $WT >/dev/null 2>&1; }
trap cleanup EXIT
cd $WT
PYTHONPATH=$WT/src timeout 600 /venv/bin/python $SRC/demo.py >/tmp/confirm_$$.log 2>&1; clean_rc=$?
if ! git apply --3way "$SRC/patch.diff" >/dev/null 2>&1 && ! git apply "$SRC/patch.diff" 2>/dev/null && ! patch -p1 -s --fuzz=3 < "$SRC/patch.diff"; then
  echo "$ID-$NAME: PATCH-DOES-NOT-APPLY"; exit 3
fi
git diff HEAD > /tmp/confirm_$$.diff
PYTHONPATH=$WT/src timeout 600 /venv/bin/python $SRC/demo.py >>/tmp/confirm_$$.log 2>&1; mut_rc=$?
PYTHONPATH=$WT/src timeout 1500 /venv/bin/python -m pytest -q -p no:cacheprovider --timeout=900 -n 6 tests --deselect tests/decay/test_viewer.py > /tmp/confirm_$$.suite 2>&1
PYTHONPATH=$WT/src timeout 600 /venv/bin/python -m pytest -q -p no:cacheprovider tests/decay/test_viewer.py >> /tmp/confirm_$$.suite 2>&1
failed=$(grep -E "^FAILED|^ERROR" /tmp/confirm_$$.suite | grep -v -E "test_particle_property_definitions|test_full_convert" | wc -l)
summary=$(grep -E "passed|failed" /tmp/confirm_$$.suite | tail -2 | tr '\n' ' ')
echo "$ID-$NAME: demo clean rc=$clean_rc, demo with change rc=$mut_rc, unexpected suite failures=$failed ($summary)"
if [ $clean_rc -eq 0 ] && [ $mut_rc -ne 0 ] && [ $failed -eq 0 ]; then
  D=$ROOT/seeded/$ID-$NAME; mkdir -p $D
  cp /tmp/confirm_$$.diff $D/patch.diff; cp $SRC/demo.py $D/demo.py
  /venv/bin/python - "$SRC/meta.json" "$D/meta.json" "$clean_rc" "$mut_rc" "$summary" "$(git -C /repo rev-parse --short HEAD)" <<'PY'
import json, sys
src, dst, c, m, summ, head = sys.argv[1:7]
try: meta = json.load(open(src))
except Exception: meta = {}
meta["confirmed"] = {"base_commit": head, "demo_exit_clean_tree": int(c), "demo_exit_with_change": int(m),
  "suite_with_change": summ.strip(), "how": "tools/confirmseed.sh: scratch worktree of /repo HEAD, patch applied (patch.diff here is re-diffed against that HEAD), demo.py run before/after, full pytest suite run with the change (test_viewer.py serially), only the two baseline always-fail tests failed"}
json.dump(meta, open(dst, "w"), indent=1)
PY
  echo "  kept -> seeded/$ID-$NAME"
else
  echo "  NOT kept"; tail -5 /tmp/confirm_$$.log
fi
rm -f /tmp/confirm_$$.*

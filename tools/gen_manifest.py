#!/usr/bin/env python3
"""Regenerates MANIFEST.json from the table below (kept in one place so it stays valid)."""
import json, sys
from pathlib import Path
ROOT = Path(__file__).resolve().parent.parent

CHECKS = {}
def add(pid, technique, text, note, ref):
    CHECKS[pid] = dict(technique=technique, text=text, note=note, ref=ref)

exec((ROOT / "tools" / "manifest_table.py").read_text())

props = [json.loads(l) for l in (ROOT / "properties.jsonl").read_text().splitlines() if l.strip()]
na = json.loads((ROOT / "tools" / "not_applicable.json").read_text())
checks = []
for p in props:
    pid = p["id"]
    if pid not in CHECKS:
        continue
    c = CHECKS[pid]
    checks.append({
        "property_id": pid,
        "quick_cmd": f"./check {pid} quick",
        "thorough_cmd": f"./check {pid} thorough",
        "evidence_file": f"evidence/{pid}.json",
        "replay_cmd_template": f"./check {pid} --replay {{path}}",
        "engine": "pbt",
        "level_claimed": {"category": "exploration", "text": c["text"], "design_ref": c["ref"]},
        "level_note": c["note"],
        "technique": c["technique"],
    })
claimed = {c["property_id"] for c in checks}
not_app = [e for e in na if e["property_id"] not in claimed]
for p in props:
    if p["id"] not in claimed and p["id"] not in {e["property_id"] for e in not_app}:
        not_app.append({"property_id": p["id"], "reason": "check not built yet in this round (planned, see DESIGN.md section 4)"})
baseline = json.loads(Path("/root/.vp/BASELINE.json").read_text())["cmd"] if Path("/root/.vp/BASELINE.json").exists() else \
    "cd /repo && /venv/bin/python -m pytest -ra -q -p no:cacheprovider --timeout=900 --continue-on-collection-errors"
baseline = baseline.replace(" --junitxml=<file>", "")
man = {
    "version": 1,
    "setup_cmd": "./setup.sh",
    "hooks": {
        "guard": "DECAYLANGUAGE_VERIF",
        "enable": "no source hooks are needed: checks import /repo/src of the working tree directly (PYTHONPATH) in fresh processes; the guard variable is exported by ./check but nothing in /repo reads it",
        "baseline_off_cmd": baseline,
        "source_commits": [],
        "add_only": True,
    },
    "engines": [{"name": "pbt", "path": "pbt/", "serves_properties": sorted(claimed),
                 "kind_free_text": "Hypothesis (strategies, rule-based state machines) + exhaustive itertools enumeration on 16 worker processes; oracles are reference models computed from generated structures"}],
    "checks": checks,
    "not_applicable": not_app,
    "notes": "All checks: ./check <ID> <quick|thorough>; VERIF_SEED selects the Hypothesis seeds; exit 2 = harness error (never a violation). Known findings: known_findings.json (read-only at run time).",
}
(ROOT / "MANIFEST.json").write_text(json.dumps(man, indent=1) + "\n")
print("checks:", sorted(claimed), "not_applicable:", [e["property_id"] for e in not_app])

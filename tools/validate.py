#!/usr/bin/env python3
"""tools/validate.py -- validate MANIFEST.json, evidence/*.json and known_findings.json shape against the task schemas.
Run with a Python that has jsonschema (python3-vt)."""
import json, sys
from pathlib import Path
import jsonschema

ROOT = Path(__file__).resolve().parent.parent
VP = Path("/root/.vp")
bad = 0
man = json.load(open(ROOT / "MANIFEST.json"))
try:
    jsonschema.validate(man, json.load(open(VP / "MANIFEST.schema.json")))
    print("MANIFEST.json ok:", len(man["checks"]), "checks,", len(man.get("not_applicable", [])), "not applicable")
except jsonschema.ValidationError as e:
    bad += 1
    print("MANIFEST.json INVALID:", e.message)
es = json.load(open(VP / "EVIDENCE.schema.json"))
props = [json.loads(l)["id"] for l in open(ROOT / "properties.jsonl")]
for pid in props:
    p = ROOT / "evidence" / f"{pid}.json"
    if not p.exists():
        bad += 1
        print(pid, "evidence MISSING")
        continue
    try:
        jsonschema.validate(json.load(open(p)), es)
    except jsonschema.ValidationError as e:
        bad += 1
        print(pid, "evidence INVALID:", e.message[:200])
claimed = {c["property_id"] for c in man["checks"]}
na = {x["property_id"] if isinstance(x, dict) else x for x in man.get("not_applicable", [])}
missing = [p for p in props if p not in claimed and p not in na]
if missing:
    bad += 1
    print("neither claimed nor not_applicable:", missing)
print("evidence files ok" if not bad else f"{bad} problem(s)")
sys.exit(1 if bad else 0)

#!/bin/bash
# tools/seedsweep.sh [tier] [jobs] : run every seeded change under seeded/ against the check of its property; one line each
# (jobs > 1 runs several changes side by side, each in its own scratch worktree; output order is then completion order)
cd "$(dirname "$0")/.."
TIER=${1:-quick}; JOBS=${2:-1}
one() {
  d=$1; TIER=$2
  n=$(basename $d); id=${n%%-*}
  out=$(tools/seedtest.sh $d/patch.diff $id $TIER 2>&1); rc=$?
  kinds=$(echo "$out" | grep -o "kind=[^ ]*" | sort -u | tr '\n' ' ')
  wall=$(echo "$out" | grep -o "wall=[0-9.]*s" | tail -1)
  echo "$n rc=$rc $wall $kinds"
}
export -f one
ls -d seeded/*/ | xargs -P $JOBS -I{} bash -c 'one {} '"$TIER"

#!/bin/bash
# tools/seedsweep.sh [tier] : run every seeded change under seeded/ against the check of its property; one line each
cd "$(dirname "$0")/.."
TIER=${1:-quick}
for d in seeded/*/; do
  n=$(basename $d); id=${n%%-*}
  out=$(tools/seedtest.sh $d/patch.diff $id $TIER 2>&1); rc=$?
  kinds=$(echo "$out" | grep -o "kind=[^ ]*" | sort -u | tr '\n' ' ')
  wall=$(echo "$out" | grep -o "wall=[0-9.]*s" | tail -1)
  echo "$n rc=$rc $wall $kinds"
done

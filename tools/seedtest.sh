#!/bin/bash
# tools/seedtest.sh <patch.diff> <ID> [tier]  -- apply a seeded change to a scratch worktree of /repo HEAD and run a check on it
PATCH=$(readlink -f "$1"); ID=$2; TIER=${3:-quick}
WT=/tmp/wt/mut_$$
git -C /repo worktree add --detach $WT HEAD >/dev/null 2>&1 || exit 3
cp /repo/src/decaylanguage/_version.py $WT/src/decaylanguage/ 2>/dev/null
if ! git -C $WT apply --3way "$PATCH" >/dev/null 2>&1 && ! git -C $WT apply "$PATCH" 2>/dev/null && ! (cd $WT && patch -p1 -s --fuzz=3 < "$PATCH"); then
  echo "PATCH-DOES-NOT-APPLY $PATCH"; git -C /repo worktree remove --force $WT; exit 3
fi
cd "$(dirname "$0")/.."
VERIF_EVIDENCE_DIR=/tmp/evid_seedtest VERIF_REPO=$WT ./check $ID $TIER 2>&1 | grep -E "VIOLATION|kind=|HARNESS|^\[" | head -12
rc=${PIPESTATUS[0]}
git -C /repo worktree remove --force $WT; rm -f replays/$ID/fail-*.json
exit $rc

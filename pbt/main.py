from __future__ import annotations

import os
import sys


def main(argv):
    if len(argv) < 2:
        print("usage: check <ID> <quick|thorough> | check <ID> --replay FILE", file=sys.stderr)
        return 2
    prop_id = argv[0]
    seed = int(os.environ.get("VERIF_SEED", "1") or "1")
    from . import harness

    if argv[1] == "--replay":
        return harness.run_check(prop_id, os.environ.get("VERIF_TIER", "quick"), seed, replay_path=argv[2])
    tier = argv[1]
    if tier not in ("quick", "thorough"):
        print(f"unknown tier {tier!r}", file=sys.stderr)
        return 2
    return harness.run_check(prop_id, tier, seed)


if __name__ == "__main__":
    try:
        rc = main(sys.argv[1:])
    except SystemExit:
        raise
    except BaseException:  # noqa: BLE001
        import traceback

        traceback.print_exc()
        rc = 2
    sys.exit(rc)

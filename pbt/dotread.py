"""Independent reader of DOT sources: Graphviz's own JSON export (`dot -Tjson0`), many graphs per
invocation.  Acceptance by Graphviz is the exit status."""
from __future__ import annotations

import json
import re
import shutil
import subprocess

_TD = re.compile(r"<TD([^>]*)>(.*?)</TD>", re.S)
_PORT = re.compile(r'PORT="([^"]*)"')


class DotError(Exception):
    pass


def dot_available():
    return shutil.which("dot") is not None


def read_graphs(sources):
    """-> list (one per source) of {"nodes": {name: [(port|None, cell_html), ...]}, "edges": [(tail, tailport|None, head, label)]}
    or an error string when Graphviz rejects the source."""
    out = []
    # one invocation per batch; on failure fall back to one-by-one to find the culprit
    r = subprocess.run(["dot", "-Tjson0"], input="\n".join(sources).encode("utf-8"), capture_output=True, timeout=600)
    docs = _split_json(r.stdout.decode("utf-8"))
    if r.returncode == 0 and len(docs) == len(sources):
        return [_graph(d) for d in docs]
    for s in sources:
        r = subprocess.run(["dot", "-Tjson0"], input=s.encode("utf-8"), capture_output=True, timeout=600)
        if r.returncode != 0:
            out.append("dot exit %d: %s" % (r.returncode, r.stderr.decode("utf-8", "replace")[:400]))
        else:
            out.append(_graph(_split_json(r.stdout.decode("utf-8"))[0]))
    return out


def _split_json(text):
    dec = json.JSONDecoder()
    docs, i = [], 0
    n = len(text)
    while i < n:
        while i < n and text[i].isspace():
            i += 1
        if i >= n:
            break
        d, j = dec.raw_decode(text, i)
        docs.append(d)
        i = j
    return docs


def _graph(d):
    objs = d.get("objects", [])
    names = {o["_gvid"]: o["name"] for o in objs}
    nodes = {}
    for o in objs:
        label = o.get("label", "")
        cells = []
        for attrs, body in _TD.findall(label):
            m = _PORT.search(attrs)
            cells.append((m.group(1) if m else None, body))
        if o["name"] in nodes:
            raise DotError(f"node {o['name']} defined twice")
        nodes[o["name"]] = cells
    edges = []
    for e in d.get("edges", []):
        edges.append((names[e["tail"]], e.get("tailport"), names[e["head"]], e.get("label")))
    return {"nodes": nodes, "edges": edges}

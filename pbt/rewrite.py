"""Semantics-preserving text rewrites of .dec files (C02).  Works on physical lines with its own
tiny tokeniser (code part / comment part split at the first '#', whitespace split); no lark."""
from __future__ import annotations

import re

from . import names as N

KINDS = ("blank", "comment", "indent", "spacing", "crlf", "wrap", "comma", "semicolon", "end")
_COMMENTS = ("# c", "#", "# Decay X ; End", "#; Enddecay", "#\tCDecay q  # x", "# ff\x0cAlias Xff Yff", "# ls\u2028Define qls 1.0",
             "# nel\x85 vt\x0b fs\x1c Decay Zq", "# \u03c0+ \u2192 \u03bc+ \u03bd")
_WS = (" ", "  ", "\t", " \t", "    ")
_NUM = re.compile(r"[+-]?(\d|\.\d)")


class Ints:
    def __init__(self, ints):
        self.ints = list(ints) or [0]
        self.i = 0

    def nxt(self, n):
        v = self.ints[self.i % len(self.ints)]
        self.i += 1
        return v % n

    def pick(self, seq):
        return seq[self.nxt(len(seq))]


def split_line(line):
    """-> (indent, tokens, seps, tail_ws, comment).  seps[i] separates tokens[i] and tokens[i+1]."""
    code, sep, comment = line.partition("#")
    comment = (sep + comment) if sep else None
    m = re.match(r"[ \t]*", code)
    indent = m.group(0)
    body = code[len(indent):]
    parts = re.split(r"([ \t]+)", body)
    tokens = [p for i, p in enumerate(parts) if i % 2 == 0]
    seps = [p for i, p in enumerate(parts) if i % 2 == 1]
    tail = ""
    if tokens and tokens[-1] == "":
        tokens.pop()
        tail = seps.pop() if seps else ""
    return indent, tokens, seps, tail, comment


def join_line(indent, tokens, seps, tail, comment):
    out = indent
    for i, t in enumerate(tokens):
        out += t
        if i < len(tokens) - 1:
            out += seps[i]
    return out + tail + (comment or "")


def model_alias_names(lines):
    out = set()
    for ln in lines:
        _, toks, _, _, _ = split_line(ln)
        if len(toks) >= 2 and toks[0] == "ModelAlias":
            out.add(toks[1])
    return out


def rewrite(text, kinds, ints, extra_models=()):
    """Apply the rewrite kinds (subset of KINDS) at positions chosen by the integer stream.
    Returns (new_text, applied_counts)."""
    R = Ints(ints)
    lines = text.replace("\r\n", "\n").split("\n")
    if lines and lines[-1] == "":
        lines.pop()
    models = set(N.MODELS) | set(extra_models) | model_alias_names(lines)
    applied = {k: 0 for k in KINDS}
    out = []
    in_decay = False
    open_stmt = False  # inside a model parameter list that continues on the next physical line
    for ln in lines:
        indent, toks, seps, tail, comment = split_line(ln)
        first = toks[0] if toks else ""
        is_cont = open_stmt
        complete_decayline = False
        if toks and not is_cont:
            if first == "Decay":
                in_decay = True
            elif first == "Enddecay":
                in_decay = False
            elif (in_decay and _NUM.match(first)) or first == "ModelAlias":
                code = " ".join(toks)
                if ";" in code:
                    complete_decayline = True
                else:
                    open_stmt = True
        elif toks and is_cont and any(";" in t for t in toks):
            open_stmt = False
        # --- (a) blank / comment lines before this line
        if "blank" in kinds and R.nxt(6) == 0:
            out.append(R.pick(("", "  ", "\t")))
            applied["blank"] += 1
        if "comment" in kinds and R.nxt(6) == 0:
            out.append(R.pick(_WS[:3] + ("",)) + R.pick(_COMMENTS))
            applied["comment"] += 1
        # --- (c) indentation
        if "indent" in kinds and toks and R.nxt(3) == 0:
            indent = R.pick(("", "  ", "\t", "     ", " \t "))
            applied["indent"] += 1
        # --- (d) spacing between tokens
        if "spacing" in kinds and len(toks) > 1 and R.nxt(3) == 0:
            seps = [R.pick(_WS) for _ in seps]
            applied["spacing"] += 1
        extra_lines = None
        if complete_decayline and "," not in " ".join(toks):
            # locate the model token and the items after it
            mi = None
            start = 2 if first == "ModelAlias" else 1
            for i in range(start, len(toks)):
                if toks[i].rstrip(";") in models:
                    mi = i
                    break
            if mi is not None:
                items = [i for i in range(mi + 1, len(toks)) if toks[i].strip(";") != ""]
                clean = all(";" not in toks[i] for i in items[:-1]) and toks[mi].find(";") < 0 if items else False
                # --- (g) commas between items
                if "comma" in kinds and clean and len(items) >= 2 and R.nxt(2) == 0:
                    k = items[R.nxt(len(items) - 1)]
                    seps[k] = R.pick((",", " , ", ", ", " ,"))
                    applied["comma"] += 1
                # --- (f) wrap the parameter list
                if "wrap" in kinds and clean and items and R.nxt(2) == 0:
                    # gaps: after the model token, between items, and before a standalone closing ';'
                    gaps = [mi] + items[:-1]
                    if items[-1] + 1 < len(toks):
                        gaps.append(items[-1])
                    g = gaps[R.nxt(len(gaps))]
                    if "," not in seps[g]:
                        left = join_line(indent, toks[:g + 1], seps[:g], "", None)
                        right = join_line(R.pick(("", "   ", "\t")), toks[g + 1:], seps[g + 1:], tail, comment)
                        if "comment" in kinds and R.nxt(3) == 0:
                            left += " " + R.pick(_COMMENTS)
                        extra_lines = [left, right]
                        applied["wrap"] += 1
        if extra_lines is None:
            new = join_line(indent, toks, seps, tail, comment)
        else:
            new = None
        # --- (h) repeated semicolons (in the code part only)
        def semi(s):
            code, sep, com = s.partition("#")
            if ";" in code and "semicolon" in kinds and R.nxt(2) == 0:
                i = code.rfind(";")
                code = code[:i] + R.pick((";;", "; ;", ";\t;", " ;;;")) + code[i + 1:]
                applied["semicolon"] += 1
            return code + sep + com
        # --- (b) trailing comment
        def trail(s):
            if "comment" in kinds and R.nxt(5) == 0:
                applied["comment"] += 1
                return s + (" " if s and not s.endswith((" ", "\t")) else "") + R.pick(_COMMENTS)
            return s
        if new is not None:
            out.append(trail(semi(new)))
        else:
            out.append(extra_lines[0])
            out.append(trail(semi(extra_lines[1])))
    # --- (i) final End line added or removed
    if "end" in kinds:
        idx = [i for i, l in enumerate(out) if l.split("#", 1)[0].strip() == "End"]
        if idx:
            for i in reversed(idx):
                del out[i]
        else:
            out.append(R.pick(("End", "  End", "End # the end")))
        applied["end"] += 1
    nl = "\n"
    if "crlf" in kinds:
        nl = "\r\n"
        applied["crlf"] += 1
    return nl.join(out) + nl, applied


def package(text, pack, tmpdir):
    """Write `text` as 1..n files according to `pack` and return the list of paths.
    pack = {"cuts": [fractions 0..999], "bom": [bool...], "end": [bool...], "newline": [bool...], "last_newline": bool}
    (newline[i] False: file i does not end with a line terminator)"""
    nl = "\r\n" if "\r\n" in text else "\n"
    lines = text.split(nl)
    if lines and lines[-1] == "":
        lines.pop()
    # an existing final End line can only stay in the last file
    cuts = sorted({1 + (c * max(1, len(lines) - 1)) // 1000 for c in pack.get("cuts", [])})
    cuts = [c for c in cuts if 0 < c < len(lines)]
    pieces = []
    prev = 0
    for c in cuts + [len(lines)]:
        pieces.append(lines[prev:c])
        prev = c
    paths = []
    for i, piece in enumerate(pieces):
        body = nl.join(piece)
        last = i == len(pieces) - 1
        ends = pack.get("end", [])
        if i < len(ends) and ends[i] and not last:
            body += nl + ("End", "End", "  End", "End   # end of this file", "End#x", "End\t#  Decay q")[(len(piece) + i) % 6]
            body += ("", "", nl + "# trailer after End", nl + nl + "   " + nl + "#", nl + "# a" + nl + "# b")[(len(piece) + 2 * i) % 5]
        nls = pack.get("newline", [])
        if (nls[i] if i < len(nls) else True) and (not last or pack.get("last_newline", True)):
            body += nl
        data = body.encode("utf-8")
        boms = pack.get("bom", [])
        if i < len(boms) and boms[i]:
            data = b"\xef\xbb\xbf" + data
        p = tmpdir / f"part{i}.dec"
        p.write_bytes(data)
        paths.append(str(p))
    if pack.get("empty_at") is not None:
        # an empty file (zero bytes, or a BOM only) among the files passed
        e = tmpdir / "empty.dec"
        e.write_bytes(b"\xef\xbb\xbf" if pack.get("empty_bom") else b"")
        paths.insert(pack["empty_at"] % (len(paths) + 1), str(e))
    return paths

"""Name pools and lexical-safety predicates for the .dec language (DESIGN.md 3.1).

Everything here comes from the `particle` package's tables (trusted) or from files pinned in
/verif/pbt/data -- never from the code under test.
"""
from __future__ import annotations

import re
from functools import lru_cache
from pathlib import Path

from hypothesis import strategies as st

DATA = Path(__file__).resolve().parent / "data"

#: the 135 model names published at the pinned commit (the code's list must stay a superset)
MODELS = tuple(DATA.joinpath("models.txt").read_text().split())

KEYWORDS = frozenset(
    """Alias BlattWeisskopf CDecay ChangeMassMax ChangeMassMin ChargeConj CopyDecay Decay Define End
    Enddecay IncludeBirthFactor IncludeDecayFactor JetSetPar LSFLAT LSMANYDELTAFUNC LSNONRELBW
    ModelAlias PHOTOS Particle PythiaAliasParam PythiaBothParam PythiaGenericParam SetLineshapePW
    no noPhotos yes yesPhotos""".split()
)

LABEL_ALPHABET = "abcdefghijklmnopqrstuvwxyzABCDEFGHIJKLMNOPQRSTUVWXYZ0123456789/-+*_().'~"
SPECIALS = "/-+*_().'~"
_NUMBER_PREFIX = re.compile(r"[+-]?(\d|\.\d)")
_FLOATY = re.compile(r"[+-]?(inf|infinity|nan)", re.I)
_WORD = re.compile(r"\w")


def number_like(s: str) -> bool:
    return bool(_NUMBER_PREFIX.match(s))


@lru_cache(maxsize=None)
def _models_sorted(extra=()):
    return tuple(sorted(set(MODELS) | set(extra), key=len, reverse=True))


def model_prefixed(s: str, extra=()) -> bool:
    """True when the MODEL_NAME terminal would match at the start of `s`: a model name followed by
    a non-word character or the end (so `PHSP-x`, `SVS.1` and `PHSP` itself, but not `PHSP_1`)."""
    for m in _models_sorted(tuple(extra)):
        if s.startswith(m):
            rest = s[len(m):]
            # \b between m's last char (always a word char) and rest[0]
            if rest == "" or not _WORD.match(rest[0]):
                return True
    return False


def safe_label(s: str, extra_models=()) -> bool:
    """A token that is a LABEL in every position of the statement language (section 3.1)."""
    if not s or any(c not in LABEL_ALPHABET for c in s):
        return False
    if s in KEYWORDS:
        return False
    if number_like(s):
        return False
    if _FLOATY.fullmatch(s):
        return False
    return not model_prefixed(s, extra_models)


# ---------------------------------------------------------------------------------------------
# particle tables (trusted)
# ---------------------------------------------------------------------------------------------

@lru_cache(maxsize=None)
def evtgen_names():
    from particle.converters import EvtGenName2PDGIDBiMap as B

    return tuple(B._to_map.keys())


@lru_cache(maxsize=None)
def pdg_names():
    from particle.converters import PDG2EvtGenNameMap as M

    return tuple(M.keys())


@lru_cache(maxsize=None)
def evtgen_safe():
    return tuple(n for n in evtgen_names() if safe_label(n))


@lru_cache(maxsize=None)
def ref_conj_table():
    """EvtGen name -> expected conjugate name, from the `particle` tables only:
    self-conjugate particle in the data base -> same name; otherwise the name carrying the
    negated PDG ID; otherwise the marker ChargeConj(name)."""
    from particle import Particle
    from particle.converters import EvtGenName2PDGIDBiMap as B

    out = {}
    for name, pid in B._to_map.items():
        pid = int(pid)
        try:
            p = Particle.from_pdgid(pid)
        except Exception:
            p = None
        if p is not None and p.is_self_conjugate:
            # only if the data base maps this very name to that particle
            out[name] = name
            continue
        other = B._from_map.get(-pid)
        if other is None:
            # data-base route: a particle known to the data base whose antiparticle is too
            out[name] = f"ChargeConj({name})"
        else:
            out[name] = other
    return out


def ref_conj(name: str) -> str:
    t = ref_conj_table()
    return t.get(name, f"ChargeConj({name})")


@lru_cache(maxsize=None)
def evtgen_classes():
    t = ref_conj_table()
    selfc = tuple(n for n in evtgen_safe() if t[n] == n)
    paired = tuple(n for n in evtgen_safe() if t[n] != n and not t[n].startswith("ChargeConj("))
    unknown = tuple(n for n in evtgen_safe() if t[n].startswith("ChargeConj("))
    return selfc, paired, unknown


# ---------------------------------------------------------------------------------------------
# strategies
# ---------------------------------------------------------------------------------------------

_LETTERS = "abcdefghijklmnopqrstuvwxyzABCDEFGHIJKLMNOPQRSTUVWXYZ"
_WORDCH = _LETTERS + "0123456789_"


@st.composite
def synthetic_label(draw, extra_models=(), min_size=1, max_size=8, avoid=frozenset()):
    """A label over the whole alphabet, constructed to be safe: first character is chosen from the
    characters that cannot start a number; at least one special character is forced with
    probability ~0.7 in a random position (leading where the rules allow)."""
    n = draw(st.integers(min_size, max_size))
    if max_size >= 6 and draw(st.sampled_from((False,) * 29 + (True,))):
        n = draw(st.sampled_from((64, 65, 70, 130)))  # the label alphabet has no length limit
    first_pool = _LETTERS + "/*_()'~" + "-+."  # '-', '+', '.' allowed when not followed by digit/.digit
    chars = [draw(st.sampled_from(first_pool))]
    for _ in range(n - 1):
        chars.append(draw(st.sampled_from(LABEL_ALPHABET)))
    if draw(st.integers(0, 9)) < 7:
        pos = draw(st.integers(0, n - 1))
        chars[pos] = draw(st.sampled_from(SPECIALS))
    s = "".join(chars)
    # repair instead of reject
    k = 0
    while not safe_label(s, extra_models) or s in avoid:
        s = "q" + s if k % 2 == 0 else s + "z"
        k += 1
        if len(s) > max(max_size, n) + 6:
            s = "q" + str(sum(map(ord, s)) % 997) + "z"
    return s


ALIAS_PREFIXES = ("My", "my", "anti-My", "sig", "tag_", "X")


@st.composite
def alias_name(draw, base=None):
    base = base if base is not None else draw(st.sampled_from(evtgen_safe()))
    style = draw(st.integers(0, 3))
    if style == 0:
        s = "My" + base
    elif style == 1:
        s = base + "sig"
    elif style == 2:
        s = "my-" + base
    else:
        s = base + "_tag" + str(draw(st.integers(0, 9)))
    return s if safe_label(s) else "My" + re.sub(r"[^A-Za-z0-9_]", "", base) + "x"


def any_label(extra_models=()):
    return st.one_of(
        st.sampled_from(evtgen_safe()),
        st.sampled_from(evtgen_safe()),
        synthetic_label(extra_models),
        alias_name(),
    )


NUM_FORMS = (
    "int", "int.", ".frac", "dec", "neg", "plus", "exp", "Exp", "exp.", "tiny", "big", "long", "edge",
)


@st.composite
def num_literal(draw, nonneg=False, forms=NUM_FORMS):
    """A numeric literal in one of the forms the grammar accepts; value = float(text)."""
    f = draw(st.sampled_from(forms))
    i = draw(st.integers(0, 999))
    j = draw(st.integers(0, 99999))
    e = draw(st.integers(1, 14))
    if f == "int":
        s = str(i)
    elif f == "int.":
        s = f"{i}."
    elif f == ".frac":
        s = f".{j}"
    elif f == "dec":
        s = f"{i}.{j}"
    elif f == "neg":
        s = f"-{i % 10}.{j}"
    elif f == "plus":
        s = f"+{i}"
    elif f == "exp":
        s = f"{i % 100}.e{e}"
    elif f == "Exp":
        s = f"{i % 10}E-{e}"
    elif f == "exp.":
        s = f"{i % 10}.{j % 100}e+{e % 5}"
    elif f == "tiny":
        s = "0." + "0" * (e % 9) + str(1 + j % 99)
    elif f == "long":
        s = f"{i % 10}.{j:05d}{(j * 7919) % 100000:05d}{(i * 3701) % 1000000:06d}" + ("" if e % 3 else f"e-{e}")  # 17 significant digits
    elif f == "edge":
        s = ("-0", "-0.0", "1e300", "2.5e-300", "0012.50", "1E+2", "123456789012345678", "0.30000000000000004", "4.9e-324", "00", "9.999999999999999e22",
             "0.1e1", "1.0000001", "0.99999995")[(i + j) % 14]
    else:
        s = f"{i}{j}"
    if nonneg and s.startswith("-"):
        s = s[1:]
    return s


@st.composite
def bf_literal(draw):
    """Branching-fraction literal: any accepted form (now and then signed), |value| in [0, ~1000]."""
    f = draw(st.sampled_from(("dec", "dec", "int", "int.", ".frac", ".frac", "Exp", "tiny", "plus", "exp.", "dec", "int", "neg")))
    s = draw(num_literal(nonneg=(f != "neg"), forms=(f,)))
    return s

"""Coverage-guided pass (atheris/libFuzzer) over the same property functions as the Hypothesis checks:
libFuzzer mutates the byte string that Hypothesis decodes into a structured case (fuzz_one_input), with
coverage feedback from the instrumented decaylanguage package.

usage: python -m pbt.fuzz_atheris <ID> <runs> <seed> <outfile>
Writes {"execs": n, "valid": n, "nontrivial": n, "failure": {...}|null} to <outfile> (rewritten every 100 execs:
atheris exits the process itself at the end of the run)."""
from __future__ import annotations

import json
import sys


def main():
    prop_id, runs, seed, outfile = sys.argv[1], int(sys.argv[2]), int(sys.argv[3]), sys.argv[4]
    import atheris

    with atheris.instrument_imports(include=["decaylanguage"]):
        import decaylanguage  # noqa: F401
        import decaylanguage.dec.dec  # noqa: F401
    import importlib

    from hypothesis import given

    from . import harness

    mod = importlib.import_module(f"pbt.props.{prop_id}")
    strategy, check = mod.FUZZ_TARGET()
    rec = harness.Rec(prop_id, "atheris", mod)
    state = {"execs": 0, "failure": None}

    def dump():
        with open(outfile, "w") as f:
            json.dump({"execs": state["execs"], "valid": rec.evaluations, "nontrivial": len(rec.digests), "classes": dict(rec.classes),
                       "failure": state["failure"]}, f, default=repr)

    @harness.hyp_settings(1)
    @given(strategy)
    def test(case):
        try:
            check(case, rec)
        except harness.Mismatch as m:
            state["failure"] = {"kind": m.kind, "detail": m.detail, "case": case, "expected": m.expected, "observed": m.observed}
            dump()
            raise

    fuzz_one = test.hypothesis.fuzz_one_input

    def target(data):
        state["execs"] += 1
        if state["execs"] % 100 == 0:
            dump()
        fuzz_one(data)

    # Hypothesis needs a few kilobytes to decode a whole structured case: start from a corpus of long
    # pseudo-random buffers (a pure function of the seed) instead of the empty one
    import random
    import tempfile

    corpus = tempfile.mkdtemp(prefix="ath_corpus_")
    rnd = random.Random(seed)
    for i in range(24):
        with open(f"{corpus}/seed{i}", "wb") as f:
            f.write(rnd.randbytes(rnd.choice((1500, 3000, 6000))))
    atheris.Setup([sys.argv[0], corpus, f"-runs={runs}", f"-seed={seed}", "-max_len=8192", "-len_control=0", "-print_final_stats=0", "-verbosity=0"], target)
    dump()
    atheris.Fuzz()


if __name__ == "__main__":
    main()

"""C20 -- conversion output depends only on the input file."""
from __future__ import annotations

import json
import os
import shutil
import subprocess
import sys
import tempfile
from collections import Counter
from concurrent.futures import ThreadPoolExecutor
from pathlib import Path

from hypothesis import strategies as st

from .. import ampgen as A
from .. import c20_pool as P
from .. import c20_runner as RUN
from ..harness import Mismatch, hyp_run

ID = "C20"
LEVEL = "exploration"
RULE = (
    "Histories of 1-3 (thorough 1-4) calls over {read with AmplitudeChain / GooFitChain / GooFitPyChain, convert to C++, convert to "
    "Python} x a pool of 8 small option files (one of which cannot be read: unknown particle, with the coherent-sum option on) with different resonance content (two carrying the coherent-sum option, 0 and 1; one "
    "with another event type; two with the same parameter and amplitude names but different values and fix flags), drawn by Hypothesis; each history runs in a forked child of a process that imported the package but "
    "never read a file (warm: special-particle table appended and look-ups of the pool's names memoised; cold: nothing looked up, "
    "no memo), and every step's result (amplitude strings, couplings, tables, output lines as a multiset without the timestamp "
    "line) must equal the result of the same single call in a fresh interpreter (subprocess, PYTHONHASHSEED=0). Fresh "
    "interpreters with PYTHONHASHSEED in {0 twice, 1, 2, 3, random}: byte-identical text for the same seed, equal multisets of "
    "lines across seeds. Non-trivial: a history of length >=2 whose files have different resonance sets."
)
ASSUMPTIONS = ["look-up memo in warm children (pure function of its key); cold children and all fresh-interpreter references run without it",
               "'relative order of mutually independent declarations' is ignored by comparing conversion outputs as multisets of lines"]


def repo_src():
    import decaylanguage

    return str(Path(decaylanguage.__file__).resolve().parents[1])


def fresh(actions, hashseed="0", timeout=900):
    env = dict(os.environ)
    env["PYTHONHASHSEED"] = str(hashseed)
    r = subprocess.run([sys.executable, "-m", "pbt.c20_runner", json.dumps(actions)], capture_output=True, text=True, env=env, timeout=timeout,
                       cwd=str(Path(__file__).resolve().parents[2]))
    if r.returncode != 0:
        return {"error": r.stderr[-1500:]}
    return json.loads(r.stdout)


def prepare(tier):
    """Write the pool files and compute every single-action reference in fresh interpreters (parallel)."""
    d = Path(tempfile.mkdtemp(prefix="c20_"))
    for name, text in P.FILES.items():
        (d / f"{name}.txt").write_text(text)
    jobs = [(op, name) for name in P.NAMES for op in P.OPS]
    def one(job):
        op, name = job
        return job, fresh([[op, str(d / f"{name}.txt")]])
    with ThreadPoolExecutor(max_workers=16) as ex:
        res = dict(ex.map(one, jobs))
    ref = {f"{op}|{name}": v for (op, name), v in res.items()}
    (d / "reference.json").write_text(json.dumps(ref))
    return d


def units(tier, seed):
    d = prepare(tier)
    quick = tier == "quick"
    u = [{"name": f"warm{k:02d}", "kind": "warm", "dir": str(d), "n": 16 if quick else 220, "maxlen": 3 if quick else 4} for k in range(11)]
    u.append({"name": "cold0", "kind": "cold", "dir": str(d), "which": 0})
    u.append({"name": "cold1", "kind": "cold", "dir": str(d), "which": 1})
    u.append({"name": "hashseeds", "kind": "hash", "dir": str(d)})
    if not quick:
        u.append({"name": "warm-nomemo", "kind": "nomemo", "dir": str(d)})
    return u


def cleanup(units_):
    for u in units_:
        shutil.rmtree(u.get("dir", ""), ignore_errors=True)


def canon(step):
    if "text" in step:
        return {"text": sorted(step["text"])}
    return step


def run_forked(actions, memo):
    """Run the history in a forked child; returns the list of per-step results (or an error)."""
    r, w = os.pipe()
    pid = os.fork()
    if pid == 0:
        try:
            os.close(r)
            try:
                if memo:
                    A.install_memo()
                else:
                    A.uninstall_memo()
                out = []
                for op, path in actions:
                    try:
                        out.append(RUN.run_action(op, path))
                    except Exception as e:  # noqa: BLE001 -- a failing read does not end the history
                        out.append({"exception": type(e).__name__, "message": str(e)[:200]})
                payload = json.dumps(out)
            except BaseException as e:  # noqa: BLE001
                payload = json.dumps({"error": repr(e)})
            with os.fdopen(w, "w") as f:
                f.write(payload)
        finally:
            os._exit(0)
    os.close(w)
    with os.fdopen(r) as f:
        data = f.read()
    os.waitpid(pid, 0)
    return json.loads(data) if data else {"error": "child died"}


def compare_history(hist, d, ref, memo, label):
    actions = [[op, str(Path(d) / f"{name}.txt")] for op, name in hist]
    got = run_forked(actions, memo)
    if isinstance(got, dict):
        raise RuntimeError(f"child failed: {got}")
    for i, ((op, name), g) in enumerate(zip(hist, got)):
        want = ref[f"{op}|{name}"]
        if isinstance(want, dict) and "error" in want:
            raise Mismatch("C20:fresh-interpreter-fails", f"{op} {name}: {want['error'][-300:]}")
        want = want[0]
        if "exception" in want:
            if g.get("exception") != want["exception"]:
                raise Mismatch("C20:history-dependence", f"{label}: step {i} ({op} {name}) after {hist[:i]}: a fresh interpreter raises {want['exception']}, here: {g.get('exception', 'no exception')}")
            continue
        if "exception" in g:
            raise Mismatch("C20:exception-after-history", f"{label}: step {i} ({op} {name}) after {hist[:i]} raised {g['exception']}: {g.get('message')}")
        cg, cw = canon(g), canon(want)
        if cg != cw:
            if "text" in cg:
                missing = list((Counter(cw["text"]) - Counter(cg["text"])).elements())[:3]
                extra = list((Counter(cg["text"]) - Counter(cw["text"])).elements())[:3]
                detail = f"output lines differ from a fresh interpreter: missing {missing} extra {extra}"
            else:
                key = next(k for k in cw if cg.get(k) != cw[k])
                detail = f"{key} differs from a fresh interpreter: {str(cw[key])[:300]} != {str(cg.get(key))[:300]}"
            raise Mismatch("C20:history-dependence", f"{label}: step {i} ({op} {name}) after {hist[:i]}: {detail}")
    if len(got) != len(hist):
        raise Mismatch("C20:exception-after-history", f"{label}: history stopped after {len(got)} steps")


def nontrivial(hist):
    return len(hist) >= 2 and (len({frozenset(P.RESONANCES[n]) for _, n in hist}) >= 2 or {"vv-rho", "vv-rho-postfit"} <= {n for _, n in hist})


def warm_up(d):
    """The state any earlier read leaves behind in the particle package and the memo -- without reading a file."""
    from decaylanguage.utils.particleutils import particle_from_string_name

    A.ensure_special_table()
    A.install_memo()
    names = set(A.FINAL) | {"D0"}
    for s in P.RESONANCES.values():
        names |= s
    for n in sorted(names):
        particle_from_string_name(n)


def replay(case, rec):
    d = Path(tempfile.mkdtemp(prefix="c20r_"))
    try:
        for name, text in P.FILES.items():
            (d / f"{name}.txt").write_text(text)
        hist = [tuple(x) for x in case["history"]]
        ref = {}
        for op, name in set(hist):
            ref[f"{op}|{name}"] = fresh([[op, str(d / f"{name}.txt")]])
        if case.get("warm", True):
            warm_up(d)
        compare_history(hist, d, ref, case.get("warm", True), "replay")
        rec.case(case, nontrivial(hist))
    finally:
        shutil.rmtree(d, ignore_errors=True)


def run_unit(unit, seed, rec, tier):
    d = unit["dir"]
    ref = json.loads((Path(d) / "reference.json").read_text())
    if unit["kind"] == "warm":
        warm_up(d)
        action = st.tuples(st.sampled_from(P.OPS), st.sampled_from(P.NAMES))
        # histories built around a related pair of files (same names with other values; cartesian then polar;
        # shared resonances) are drawn as often as unconstrained ones
        pairs = (("broken-cart-1", "vv-rho"), ("broken-cart-1", "cart-0-partial"), ("vv-rho", "vv-rho-postfit"), ("vv-rho-postfit", "vv-rho"), ("cart-1", "vv-rho"), ("cart-1", "cart-0-partial"),
                 ("kmatrix-focus", "vv-omega"), ("a1-spline", "vv-rho"), ("cart-0-partial", "vv-omega"), ("vv-omega", "kmatrix-focus"))
        related = st.builds(lambda op1, op2, pr, filler: [(op1, pr[0])] + filler + [(op2 or op1, pr[1])],
                            st.sampled_from(P.OPS), st.one_of(st.none(), st.sampled_from(P.OPS)), st.sampled_from(pairs),
                            st.lists(action, max_size=max(0, unit["maxlen"] - 2)))
        strat = st.one_of(st.lists(action, min_size=1, max_size=unit["maxlen"]), related)

        def check(hist, rec_):
            hist = [tuple(x) for x in hist]
            compare_history(hist, d, ref, True, "warm parent")
            classes = ["len-%d" % len(hist)] + sorted({"op-" + op for op, _ in hist})
            if any(n.startswith("cart") for _, n in hist):
                classes.append("with-cartesian-file")
            if len({op[-1] for op, _ in hist if op.startswith("read")} | ({"G"} if any(op == "cpp" for op, _ in hist) else set()) | ({"P"} if any(op == "py" for op, _ in hist) else set())) >= 2:
                classes.append("several-reader-classes")
            rec_.case({"history": [list(h) for h in hist], "warm": True}, nontrivial(hist), classes, sample=lambda: {"history": [list(h) for h in hist], "parent": "warm"})

        hyp_run(rec, strat, lambda h, r: check(h, r), unit["n"], seed, shrink_budget_s=60)
    elif unit["kind"] == "cold":
        # a process in which nothing has been looked up: exactly a fresh interpreter that then goes through a history
        hists = [
            [("read-A", "vv-rho"), ("cpp", "vv-omega")],
            [("py", "cart-1"), ("cpp", "vv-rho"), ("py", "cart-1")],
            [("read-G", "a1-spline"), ("py", "kmatrix-focus")],
            [("cpp", "cart-0-partial"), ("read-P", "cart-1"), ("cpp", "kmatrix-focus")],
        ]
        for h in hists[unit["which"]::2]:
            try:
                compare_history(h, d, ref, False, "cold parent")
            except Mismatch as m:
                m.case = {"history": [list(x) for x in h], "warm": False}
                raise
            rec.case({"history": [list(x) for x in h], "warm": False}, nontrivial(h), ["cold-parent", "len-%d" % len(h)], sample={"history": [list(x) for x in h], "parent": "cold"})
    elif unit["kind"] == "nomemo":
        warm_up(d)
        for h in ([("cpp", "vv-rho"), ("py", "vv-omega"), ("cpp", "a1-spline")], [("read-G", "kmatrix-focus"), ("cpp", "cart-1"), ("py", "vv-rho")]):
            compare_history(h, d, ref, False, "warm parent, memo removed in the child")
            rec.case({"history": [list(x) for x in h], "warm": "nomemo"}, True, ["memo-transparency"])
    else:
        actions = [("cpp", "a1-spline"), ("py", "a1-spline"), ("cpp", "kmatrix-focus"), ("py", "vv-rho")]
        seeds = ["0", "0", "1", "2", "3", "random"]
        jobs = [(a, s, k) for a in actions for k, s in enumerate(seeds)]

        def one(job):
            (op, name), s, k = job
            env_seed = s
            return job, fresh_raw([[op, str(Path(d) / f"{name}.txt")]], env_seed)

        with ThreadPoolExecutor(max_workers=12) as ex:
            res = dict(ex.map(one, jobs))
        for a in actions:
            base = res[(a, "0", 0)]
            again = res[(a, "0", 1)]
            if base != again:
                m = Mismatch("C20:not-reproducible", f"{a}: two fresh interpreters with PYTHONHASHSEED=0 give different text (apart from the timestamp)")
                m.case = {"history": [list(a)], "hash": True}
                raise m
            for k, s in enumerate(seeds[2:], start=2):
                other = res[(a, s, k)]
                if sorted(other) != sorted(base):
                    missing = list((Counter(base) - Counter(other)).elements())[:3]
                    m = Mismatch("C20:hash-seed-dependence", f"{a}: PYTHONHASHSEED={s} changes the set of output lines, e.g. {missing}")
                    m.case = {"history": [list(a)], "hash": True}
                    raise m
                rec.case({"action": list(a), "hashseed": s, "k": k}, True, ["hashseed-" + s, "line-order-differs" if other != base else "line-order-same"])
        rec.samples.append({"hash_seed_runs": [list(a) for a in actions], "seeds": seeds})


def fresh_raw(actions, hashseed):
    r = fresh(actions, hashseed)
    if isinstance(r, dict):
        raise RuntimeError(r["error"])
    return r[0]["text"]

"""C10 -- expanding decay modes enumerates every complete decay path exactly once."""
from __future__ import annotations

from collections import Counter

from hypothesis import strategies as st

from .. import chains as C
from .. import decgen as G
from .. import decref as R
from ..harness import Mismatch, hyp_run, impl
from ..snapshot import make_parser, norm_params

ID = "C10"
LEVEL = "exploration"
RULE = (
    "Hypothesis draws acyclic sets of 3-8 decay tables (0-4 lines, 0-4 daughters, repeated daughters, empty blocks at every "
    "depth, aliases that decay and aliases that do not); for every mother with an independently computed path count <= 3000 "
    "expand_decay_modes(M) must have exactly that length and, read back with a bracket-matching reader, be the same multiset "
    "of trees as the reference enumeration (decaying aliases shown under their target). Half of the sets also have 1-2 CopyDecay "
    "statements whose new name (1 in 3 also declared an alias) replaces some uses of its source as a daughter: a copied table is "
    "shown under its own name unless that name is an alias. A further unit has a single line whose daughters' counts multiply "
    "to 10000-20000 (14 shapes, e.g. 11^4, 101^2, 2^14, one daughter with 10001 lines). Shipped master files: mothers whose "
    "path count is below 5000. Names have balanced parentheses (DESIGN 6.9). Non-trivial: count >=4 with a line having >=3 "
    "daughters of which >=2 decay, or an alias below the top level, or a reachable empty block."
)
ASSUMPTIONS = ["reference recursion pbt/decref.paths/count_paths", "shipped files: per-line tables from list_decay_modes (C01 validates them)"]
LIMIT = 3000


def check_mother(p, tables, aliases, m, prop=ID):
    n = R.count_paths(tables, m)
    with impl(prop, "expand_decay_modes"):
        got = p.expand_decay_modes(m)
    if len(got) != n:
        raise Mismatch("C10:count", f"mother {m!r}", n, len(got))
    want = Counter(R.paths(tables, m, aliases))
    try:
        trees = Counter(C.read_descriptor(s) for s in got)
    except C.DescriptorError as e:
        raise Mismatch("C10:unreadable-descriptor", str(e)) from e
    want_c = Counter(canon_tree(t) for t in want.elements())
    if trees != want_c:
        missing = list((want_c - trees).elements())[:3]
        extra = list((trees - want_c).elements())[:3]
        raise Mismatch("C10:paths", f"mother {m!r}", {"missing": missing}, {"extra": extra})
    return n


def canon_tree(t):
    if isinstance(t, str):
        return t
    m, ch = t
    return C.canon(m, [canon_tree(c) for c in ch])


def reach(tables, m, seen=None):
    seen = set() if seen is None else seen
    for ln in tables[m]:
        for d in ln["fs"]:
            if d in tables and d not in seen:
                seen.add(d)
                reach(tables, d, seen)
    return seen


BIG_SHAPES = ((11, 11, 11, 11), (101, 101), (22, 22, 22), (5, 5, 5, 5, 5, 4), (150, 70), (10, 10, 10, 11), (100, 100), (10, 10, 10, 10),
              (10001,), (2,) * 14, (3,) * 9, (7, 7, 7, 7, 5), (130, 80, 1), (10, 1001))


@st.composite
def c10_file(draw):
    """table_set_file, to which 0-2 CopyDecay statements are added: the new name replaces some uses of its source as a
    daughter (the set stays acyclic); the new name may in addition be declared an alias of some particle."""
    from .. import names as N

    f = draw(G.table_set_file())
    stmts = f["stmts"]
    decays = [s_ for s_ in stmts if s_["k"] == "decay"]
    used = {d for b in decays for ln in b["lines"] for d in ln["d"]}
    cands = sorted(used & {b["m"] for b in decays})
    if not cands or draw(st.sampled_from((False, True))):
        return f
    names_in_file = used | {b["m"] for b in decays}
    for i in range(draw(st.integers(1, 2))):
        src = draw(st.sampled_from(cands))
        new = f"MyCopy{i}"
        for b in decays:
            for ln in b["lines"]:
                ln["d"] = [new if d == src and draw(st.booleans()) else d for d in ln["d"]]
        stmts.insert(draw(st.integers(0, len(stmts))), {"k": "copydecay", "new": new, "old": src})
        if draw(st.sampled_from((False, False, True))):
            tgt = draw(st.sampled_from([t for t in N.evtgen_safe()[:200] if t not in names_in_file]))
            stmts.insert(draw(st.integers(0, len(stmts))), {"k": "alias", "a": new, "p": tgt})
    return f


@st.composite
def big_file(draw):
    """One decay line whose daughters' own counts multiply to 10000-20000 (the bound of the ordinary cases is 3000 per
    mother): a product that large must still be enumerated completely."""
    shape = list(draw(st.sampled_from(BIG_SHAPES)))
    shape = list(draw(st.permutations(shape)))
    stmts, ds = [], []
    for i, n in enumerate(shape):
        d = f"zd{i}"
        ds.append(d)
        lines = [{"bf": "0.001", "d": [f"s{i}x{j}"] + (["gamma"] if draw(st.integers(0, 9)) == 0 else []), "photos": False, "model": "PHSP",
                  "alias": False, "params": []} for j in range(n)]
        stmts.append({"k": "decay", "m": d, "lines": lines})
    extra = draw(st.lists(st.sampled_from(("K+", "pi-", "gamma")), max_size=2))
    top = [{"bf": "0.5", "d": list(draw(st.permutations(ds + extra))), "photos": False, "model": "PHSP", "alias": False, "params": []}]
    if draw(st.booleans()):
        top.insert(draw(st.integers(0, 1)), {"bf": "0.5", "d": ["K+", ds[0]], "photos": False, "model": "PHSP", "alias": False, "params": []})
    stmts.append({"k": "decay", "m": "zz_top", "lines": top})
    stmts = list(draw(st.permutations(stmts)))
    return {"stmts": stmts, "layout": [], "crlf": False, "end": False, "big": True}


def check_case(f, rec):
    text = G.render(f)
    tables = {}
    for m_, _o, ls_ in R.all_tables(f, include_cc=False):  # Decay blocks and CopyDecay'd tables
        tables.setdefault(m_, ls_)
    if f.get("big"):
        p = make_parser(text, ID)
        n = check_mother(p, tables, {}, "zz_top")
        rec.case(f, True, ["single-line-product>=10000" if n >= 10000 else "big"], sample=lambda: {"shape": sorted(len(v) for v in tables.values()), "count": n})
        return
    aliases = {s["a"]: s["p"] for s in f["stmts"] if s["k"] == "alias"}
    p = make_parser(text, ID)
    nt = False
    classes = set()
    for m in tables:
        n = R.count_paths(tables, m)
        if n > LIMIT:
            classes.add("skipped-count-above-limit")
            continue
        check_mother(p, tables, aliases, m)
        below = reach(tables, m)
        wide = any(len(ln["fs"]) >= 3 and sum(1 for d in ln["fs"] if d in tables and tables[d]) >= 2 for ln in tables[m])
        alias_below = any(d in aliases and tables[d] for d in below)
        empty_reach = any(not tables[d] for d in below)
        if (n >= 4 and wide) or alias_below or empty_reach:
            nt = True
        if wide:
            classes.add("line-with-3+-daughters-2+-decaying")
        if alias_below:
            classes.add("decaying-alias-below-top")
        if empty_reach:
            classes.add("reachable-empty-block(F12)")
        if m in aliases:
            classes.add("mother-is-alias")
        copied = {s_["new"] for s_ in f["stmts"] if s_["k"] == "copydecay"}
        if copied & below:
            classes.add("copied-table-below-top" + ("(also-alias)" if copied & below & set(aliases) else ""))
        if n == 0:
            classes.add("count-0")
        elif n >= 100:
            classes.add("count>=100")
    rec.case(f, nt, sorted(classes), sample=lambda: {"text": text, "counts": {m: R.count_paths(tables, m) for m in tables}})


def shipped_unit(fname, rec, limit=None, only=None, seed=1):
    import sys
    import warnings
    from pathlib import Path

    import decaylanguage
    from decaylanguage import DecFileParser

    path = Path(decaylanguage.__file__).parent / "data" / fname
    p = DecFileParser(str(path))
    with impl(ID, "parse-shipped"), warnings.catch_warnings():
        warnings.simplefilter("ignore")
        p.parse()
    with impl(ID, "tables-shipped"):
        tables = {}
        for m in p.list_decay_mother_names():
            if m not in tables:
                tables[m] = [{"fs": list(fs)} for fs in p.list_decay_modes(m)]
        aliases = dict(p.dict_aliases())
    eligible = []
    memo, nodes = {}, {}
    for m in tables:
        try:
            if R.count_paths(tables, m, memo) < 5000 and R.count_nodes(tables, m, frozenset(), nodes) < 20000:
                eligible.append(m)
        except RecursionError:
            pass
    if only:
        eligible = [only]
    elif limit:
        step = max(1, len(eligible) // limit)
        eligible = eligible[(seed % step)::step][:limit]
    for m in eligible:
        try:
            n = check_mother(p, tables, aliases, m)
        except Mismatch as e:
            e.case = {"shipped": fname, "mother": m}
            raise
        rec.case({"shipped": fname, "m": m}, n >= 4, ["shipped-" + fname])
    rec.notes.append(f"{fname}: {len(tables)} mothers, {len(eligible)} checked (path count < 5000)")


def replay(case, rec):
    if "shipped" in case:
        shipped_unit(case["shipped"], rec, only=case.get("mother"))
    else:
        check_case(case, rec)


def units(tier, seed):
    n = 200 if tier == "quick" else 3000
    u = [{"name": f"hyp{k:02d}", "kind": "hyp", "n": n} for k in range(14)]
    u.append({"name": "big", "kind": "big", "n": 6 if tier == "quick" else 60})
    lim = 25 if tier == "quick" else None
    u.append({"name": "shipped-DECAY_LHCB", "kind": "shipped", "file": "DECAY_LHCB.DEC", "limit": lim})
    u.append({"name": "shipped-DECAY_BELLE2", "kind": "shipped", "file": "DECAY_BELLE2.DEC", "limit": lim})
    return u


def run_unit(unit, seed, rec, tier):
    if unit["kind"] == "shipped":
        shipped_unit(unit["file"], rec, unit["limit"], seed=seed)
    elif unit["kind"] == "big":
        hyp_run(rec, big_file(), check_case, unit["n"], seed, render=lambda f: "(one line with a product of %s)" % sorted(
            len(s_["lines"]) for s_ in f["stmts"] if s_["m"] != "zz_top"))
    else:
        hyp_run(rec, c10_file(), check_case, unit["n"], seed, render=lambda f: G.render(f))

"""C10 -- expanding decay modes enumerates every complete decay path exactly once."""
from __future__ import annotations

from collections import Counter

from hypothesis import strategies as st

from .. import chains as C
from .. import decgen as G
from .. import decref as R
from ..harness import Mismatch, hyp_run, impl
from ..snapshot import make_parser, norm_params

ID = "C10"
LEVEL = "exploration"
RULE = (
    "Hypothesis draws acyclic sets of 3-8 decay tables (0-4 lines, 0-4 daughters, repeated daughters, empty blocks at every "
    "depth, aliases that decay and aliases that do not); for every mother with an independently computed path count <= 3000 "
    "expand_decay_modes(M) must have exactly that length and, read back with a bracket-matching reader, be the same multiset "
    "of trees as the reference enumeration (decaying aliases shown under their target). Shipped master files: mothers whose "
    "path count is below 5000. Names have balanced parentheses (DESIGN 6.9). Non-trivial: count >=4 with a line having >=3 "
    "daughters of which >=2 decay, or an alias below the top level, or a reachable empty block."
)
ASSUMPTIONS = ["reference recursion pbt/decref.paths/count_paths", "shipped files: per-line tables from list_decay_modes (C01 validates them)"]
LIMIT = 3000


def check_mother(p, tables, aliases, m, prop=ID):
    n = R.count_paths(tables, m)
    with impl(prop, "expand_decay_modes"):
        got = p.expand_decay_modes(m)
    if len(got) != n:
        raise Mismatch("C10:count", f"mother {m!r}", n, len(got))
    want = Counter(R.paths(tables, m, aliases))
    try:
        trees = Counter(C.read_descriptor(s) for s in got)
    except C.DescriptorError as e:
        raise Mismatch("C10:unreadable-descriptor", str(e)) from e
    want_c = Counter(canon_tree(t) for t in want.elements())
    if trees != want_c:
        missing = list((want_c - trees).elements())[:3]
        extra = list((trees - want_c).elements())[:3]
        raise Mismatch("C10:paths", f"mother {m!r}", {"missing": missing}, {"extra": extra})
    return n


def canon_tree(t):
    if isinstance(t, str):
        return t
    m, ch = t
    return C.canon(m, [canon_tree(c) for c in ch])


def reach(tables, m, seen=None):
    seen = set() if seen is None else seen
    for ln in tables[m]:
        for d in ln["fs"]:
            if d in tables and d not in seen:
                seen.add(d)
                reach(tables, d, seen)
    return seen


def check_case(f, rec):
    text = G.render(f)
    tables = R.decay_tables(f)
    aliases = {s["a"]: s["p"] for s in f["stmts"] if s["k"] == "alias"}
    p = make_parser(text, ID)
    nt = False
    classes = set()
    for m in tables:
        n = R.count_paths(tables, m)
        if n > LIMIT:
            classes.add("skipped-count-above-limit")
            continue
        check_mother(p, tables, aliases, m)
        below = reach(tables, m)
        wide = any(len(ln["fs"]) >= 3 and sum(1 for d in ln["fs"] if d in tables and tables[d]) >= 2 for ln in tables[m])
        alias_below = any(d in aliases and tables[d] for d in below)
        empty_reach = any(not tables[d] for d in below)
        if (n >= 4 and wide) or alias_below or empty_reach:
            nt = True
        if wide:
            classes.add("line-with-3+-daughters-2+-decaying")
        if alias_below:
            classes.add("decaying-alias-below-top")
        if empty_reach:
            classes.add("reachable-empty-block(F12)")
        if m in aliases:
            classes.add("mother-is-alias")
        if n == 0:
            classes.add("count-0")
        elif n >= 100:
            classes.add("count>=100")
    rec.case(f, nt, sorted(classes), sample=lambda: {"text": text, "counts": {m: R.count_paths(tables, m) for m in tables}})


def shipped_unit(fname, rec, limit=None, only=None, seed=1):
    import sys
    import warnings
    from pathlib import Path

    import decaylanguage
    from decaylanguage import DecFileParser

    path = Path(decaylanguage.__file__).parent / "data" / fname
    p = DecFileParser(str(path))
    with impl(ID, "parse-shipped"), warnings.catch_warnings():
        warnings.simplefilter("ignore")
        p.parse()
    with impl(ID, "tables-shipped"):
        tables = {}
        for m in p.list_decay_mother_names():
            if m not in tables:
                tables[m] = [{"fs": list(fs)} for fs in p.list_decay_modes(m)]
        aliases = dict(p.dict_aliases())
    eligible = []
    memo, nodes = {}, {}
    for m in tables:
        try:
            if R.count_paths(tables, m, memo) < 5000 and R.count_nodes(tables, m, frozenset(), nodes) < 20000:
                eligible.append(m)
        except RecursionError:
            pass
    if only:
        eligible = [only]
    elif limit:
        step = max(1, len(eligible) // limit)
        eligible = eligible[(seed % step)::step][:limit]
    for m in eligible:
        try:
            n = check_mother(p, tables, aliases, m)
        except Mismatch as e:
            e.case = {"shipped": fname, "mother": m}
            raise
        rec.case({"shipped": fname, "m": m}, n >= 4, ["shipped-" + fname])
    rec.notes.append(f"{fname}: {len(tables)} mothers, {len(eligible)} checked (path count < 5000)")


def replay(case, rec):
    if "shipped" in case:
        shipped_unit(case["shipped"], rec, only=case.get("mother"))
    else:
        check_case(case, rec)


def units(tier, seed):
    n = 200 if tier == "quick" else 3000
    u = [{"name": f"hyp{k:02d}", "kind": "hyp", "n": n} for k in range(14)]
    lim = 25 if tier == "quick" else None
    u.append({"name": "shipped-DECAY_LHCB", "kind": "shipped", "file": "DECAY_LHCB.DEC", "limit": lim})
    u.append({"name": "shipped-DECAY_BELLE2", "kind": "shipped", "file": "DECAY_BELLE2.DEC", "limit": lim})
    return u


def run_unit(unit, seed, rec, tier):
    if unit["kind"] == "shipped":
        shipped_unit(unit["file"], rec, unit["limit"], seed=seed)
    else:
        hyp_run(rec, G.table_set_file(), check_case, unit["n"], seed, render=lambda f: G.render(f))

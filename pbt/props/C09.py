"""C09 -- decay chains are the faithful recursive unfolding of the decay tables."""
from __future__ import annotations

from hypothesis import strategies as st

from .. import decgen as G
from .. import decref as R
from ..harness import Mismatch, hyp_run, impl
from ..snapshot import make_parser, norm_params

ID = "C09"
LEVEL = "exploration"
RULE = (
    "Hypothesis draws acyclic sets of 3-8 decay tables (0-4 lines, 0-4 daughters, repeated daughters, empty blocks, PHOTOS "
    "lines, aliases, particles without tables, half of the sets with 1-2 CopyDecay'd tables used as daughters); for every mother M and 3 drawn stable sets S (arbitrary subsets of all names "
    "involved, incl. M, M's daughters and table-less names; passed as list, tuple, set or frozenset, by keyword or by position) build_decay_chains(M, S) is compared "
    "with the recursive definition computed from the AST; table-less names must raise DecayNotFound (also when the text has no decay table at all). Shipped master files: "
    "mothers whose unfolding (independently counted) stays below 20000 nodes, tables taken from list_decay_modes (validated by "
    "C01), recursion/S-cut recomputed independently. Non-trivial: depth >=2 and (a repeated decaying daughter or a non-empty S "
    "cutting a particle that has a table below the first level)."
)
ASSUMPTIONS = ["for the shipped files the per-line tables fed to the reference recursion are the implementation's own (C01 validates them)"]


def norm_chain(c):
    """model_params '' and [] are both 'absent'; lists normalised."""
    out = {}
    for m, modes in c.items():
        out[m] = []
        for d in modes:
            fs = [norm_chain(x) if isinstance(x, dict) else x for x in d["fs"]]
            out[m].append({"bf": d["bf"], "fs": fs, "model": d["model"], "model_params": norm_params(d["model_params"])})
    return out


def depth(tables, m, stable):
    best = 1
    for ln in tables[m]:
        for d in ln["fs"]:
            if d in tables and d not in stable:
                best = max(best, 1 + depth(tables, d, stable))
    return best


@st.composite
def c09_case(draw):
    from .C10 import c10_file

    f = draw(c10_file())  # table sets, half of them with CopyDecay'd tables used as daughters
    names = sorted({s["m"] for s in f["stmts"] if s["k"] == "decay"} | {d for s in f["stmts"] if s["k"] == "decay" for ln in s["lines"] for d in ln["d"]})
    sets = []
    for _ in range(3):
        sub = draw(st.lists(st.sampled_from(names), max_size=min(5, len(names)), unique=True)) if names else []
        sets.append({"s": sub, "as": draw(st.sampled_from(("list", "tuple", "set", "frozenset"))),
                     "positional": draw(st.sampled_from((False, False, True)))})
    f["stable_sets"] = sets
    return f


def check_case(f, rec):
    from decaylanguage.dec.dec import DecayNotFound

    text = G.render(f)
    tables = {}
    for m_, _o, ls_ in R.all_tables(f, include_cc=False):  # Decay blocks and CopyDecay'd tables
        tables.setdefault(m_, ls_)
    p = make_parser(text, ID)
    nt = False
    classes = set()
    for sdef in f["stable_sets"]:
        S = frozenset(sdef["s"])
        arg = {"list": list, "tuple": tuple, "set": set, "frozenset": frozenset}[sdef["as"]](sdef["s"])
        for m in tables:
            if R.count_nodes(tables, m, S) > 20000:
                classes.add("skipped-too-big")
                continue
            want = R.chain(tables, m, S)
            try:
                with impl(ID, "build_decay_chains"):
                    # the stable set is the second parameter: given by keyword or by position
                    got = p.build_decay_chains(m, arg) if sdef.get("positional") else p.build_decay_chains(m, stable_particles=arg)
            except Mismatch as e:
                if sdef["as"] == "frozenset" and "TypeError" in e.kind:
                    # a frozenset is outside the annotated list/set/tuple: refusing it is fine, ignoring it is not
                    classes.add("frozenset-refused")
                    continue
                raise
            got_n = norm_chain(got)
            if got_n != want:
                raise Mismatch("C09:chain", f"mother {m!r} stable={sorted(S)} (given as {sdef['as']})", want, got_n)
            dp = depth(tables, m, S)
            rep = any(ln["fs"].count(d) > 1 and d in tables and d not in S for ln in tables[m] for d in ln["fs"])
            cut_below = bool(S) and any(d2 in S and d2 in tables for ln in tables[m] for d in ln["fs"] if d in tables and d not in S
                                       for ln2 in tables[d] for d2 in ln2["fs"])
            if dp >= 2 and (rep or cut_below):
                nt = True
            if rep:
                classes.add("repeated-decaying-daughter")
            if cut_below:
                classes.add("S-cuts-below-first-level")
            if any(not tables[d] for ln in tables[m] for d in ln["fs"] if d in tables):
                classes.add("daughter-with-empty-block")
            if m in S:
                classes.add("S-contains-M")
            if any(d in R.copies(f) and d not in S for ln in tables[m] for d in ln["fs"]):
                classes.add("copied-table-as-daughter")
            if any(ln["photos"] for ln in tables[m]):
                classes.add("photos-line")
            classes.add("S-as-" + sdef["as"] + ("-positional" if sdef.get("positional") else ""))
    # not-found error for names without a table
    others = sorted({d for ls in tables.values() for ln in ls for d in ln["fs"]} - set(tables))
    for x in others[:3]:
        try:
            p.build_decay_chains(x)
        except DecayNotFound:
            classes.add("not-found-raises")
        except Exception as e:  # noqa: BLE001
            raise Mismatch("C09:not-found-error", f"{x!r}: expected DecayNotFound, got {type(e).__name__}") from e
        else:
            raise Mismatch("C09:not-found-error", f"{x!r} has no table but build_decay_chains returned")
    if f["stable_sets"] and f["stable_sets"][0].get("positional"):
        # the same question put to a parsed file that has no decay table at all
        rest = dict(f, stmts=[s_ for s_ in f["stmts"] if s_["k"] != "decay"] or [{"k": "alias", "a": "MyZ0", "p": "Z0"}])
        p0 = make_parser(G.render(rest), ID)
        for x in list(tables)[:2] + others[:1]:
            try:
                p0.build_decay_chains(x)
            except DecayNotFound:
                classes.add("not-found-raises(file-without-tables)")
            except Exception as e:  # noqa: BLE001
                raise Mismatch("C09:not-found-error", f"{x!r} in a file without decay tables: expected DecayNotFound, got {type(e).__name__}") from e
            else:
                raise Mismatch("C09:not-found-error", f"{x!r}: a file without tables, but build_decay_chains returned")
    rec.case(f, nt, sorted(classes), sample=lambda: {"text": text, "stable_sets": f["stable_sets"]})


def replay(case, rec):
    if "shipped" in case:
        shipped_unit(case["shipped"], rec, only=case.get("mother"))
    else:
        check_case(case, rec)


def shipped_unit(fname, rec, limit=None, only=None, seed=1):
    import warnings
    from pathlib import Path

    import decaylanguage
    from decaylanguage import DecFileParser

    path = Path(decaylanguage.__file__).parent / "data" / fname
    p = DecFileParser(str(path))
    with impl(ID, "parse-shipped"), warnings.catch_warnings():
        warnings.simplefilter("ignore")
        p.parse()
    with impl(ID, "tables-shipped"):
        tables = {}
        for m in p.list_decay_mother_names():
            if m in tables:
                continue
            tables[m] = [{"bf": d["bf"], "fs": list(d["fs"]), "model": d["model"], "params": norm_params(d["model_params"]), "photos": False}
                         for d in (p._decay_mode_details(dm, False) for dm in p._find_decay_modes(m))]
    memo = {}
    eligible = []
    import sys
    for m in tables:
        try:
            if R.count_nodes(tables, m, frozenset(), memo) < 20000:
                eligible.append(m)
        except RecursionError:
            pass  # cyclic tables (e.g. mixing) never terminate: outside the acyclic quantifier
    if only:
        eligible = [only]
    elif limit:
        step = max(1, len(eligible) // limit)
        eligible = eligible[(seed % step)::step][:limit]
    for m in eligible:
        # S: empty, and a subset made of every other decaying daughter of M
        dd = [d for ln in tables[m] for d in ln["fs"] if d in tables]
        for S in (frozenset(), frozenset(dd[::2])):
            want = R.chain(tables, m, S)
            with impl(ID, "build_decay_chains"):
                got = norm_chain(p.build_decay_chains(m, stable_particles=list(S)))
            if got != want:
                e = Mismatch("C09:chain-shipped", f"{fname} mother {m!r} stable={sorted(S)}", None, None)
                e.case = {"shipped": fname, "mother": m}
                raise e
            rec.case({"shipped": fname, "m": m, "S": sorted(S)}, depth(tables, m, S) >= 2 and bool(S), ["shipped-" + fname])
    rec.notes.append(f"{fname}: {len(tables)} mothers, {len(eligible)} checked (unfolding < 20000 nodes)")


def units(tier, seed):
    n = 200 if tier == "quick" else 3000
    u = [{"name": f"hyp{k:02d}", "kind": "hyp", "n": n} for k in range(14)]
    lim = 20 if tier == "quick" else None
    u.append({"name": "shipped-DECAY_LHCB", "kind": "shipped", "file": "DECAY_LHCB.DEC", "limit": lim})
    u.append({"name": "shipped-DECAY_BELLE2", "kind": "shipped", "file": "DECAY_BELLE2.DEC", "limit": lim})
    return u


def run_unit(unit, seed, rec, tier):
    if unit["kind"] == "shipped":
        shipped_unit(unit["file"], rec, unit["limit"], seed=seed)
    else:
        hyp_run(rec, c09_case(), check_case, unit["n"], seed, render=lambda f: G.render(f))

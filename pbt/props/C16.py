"""C16 -- printed decay-mode tables show every mode once, correctly ordered and scaled."""
from __future__ import annotations

import math
import re
from collections import Counter

from hypothesis import strategies as st

from .. import decgen as G
from .. import decref as R
from .. import names as N
from ..harness import Mismatch, hyp_run, impl
from ..snapshot import capture_print, make_parser, observed_tables

ID = "C16"
LEVEL = "exploration"
RULE = (
    "Hypothesis draws one decay table with 1-12 lines (branching fractions 1e-12..1 with exact ties, values differing only "
    "beyond the 7th digit and zeros; 0-4 daughters; PHOTOS; word and numeric parameters) and every combination of print_model, "
    "display_photos_keyword, ascending, normalize, scale in {None, values in (0,1], 1, 1.0, 0, 0.0, negative, >1, nan, +-inf}, mother given "
    "by EvtGen or by PDG name. Oracle: stdout split into rows/fields; one row per line; daughters/model/params/PHOTOS as "
    "requested; order = sort by the stored value in the requested direction (file order among equal values for descending; "
    "any order of equal values for ascending); value within half a unit of the 7th significant digit of bf*factor (1, 1/sum, scale/max); sum = 1 under "
    "normalise; RuntimeError for normalize+scale and scale outside (0,1]; tables unchanged afterwards. Tables printed with "
    "normalize/scale have a positive largest value. Non-trivial: >=3 lines not already sorted, with a non-default option."
)
ASSUMPTIONS = ["rows are split on runs of >=2 blanks (daughters, model and parameters are joined by single blanks in the output format)"]

BFS = ("0.5", "0.25", ".125", "1e-12", "3.3392e-05", "0.1234567", "0.12345671", "0.12345674", "1", "1.0", "0.0271", "0.0542", "0.533",
       "6.5e-08", "0", "0.000", "9.9999999e-1", "0.9999999", "2E-4", "0.08", "0.3333333333")


@st.composite
def c16_case(draw):
    from particle.converters import PDG2EvtGenNameMap

    use_pdg = draw(st.integers(0, 4)) == 0
    if use_pdg:
        pairs = [(pn, en) for pn, en in PDG2EvtGenNameMap.items() if pn != en and N.safe_label(en)]
        pdg_name, mother = draw(st.sampled_from(pairs[:300]))
    else:
        pdg_name, mother = None, draw(st.sampled_from(N.evtgen_safe()[:200]))
    pool = draw(G.name_pool(4, 7))
    n = draw(st.integers(1, 12))
    near_one = draw(st.sampled_from((None,) * 12 + (("0.5", "0.5", "4e-7"), ("0.7", "0.3", "9e-7"), ("0.25", "0.25", "0.4999996"), ("0.9999993",), ("0.6", "0.4000007"), ("0.2", "0.3", "0.1", "0.4000005"))))
    base = draw(st.lists(st.sampled_from(BFS), min_size=1, max_size=4))
    lines = []
    for _ in range(n):
        bf = draw(st.sampled_from(base)) if draw(st.integers(0, 2)) == 0 else draw(st.sampled_from(BFS))
        nd = draw(st.sampled_from((1, 2, 2, 3, 4, 0)))
        params = draw(G.params_list((), 4))
        lines.append({"bf": bf, "d": [draw(st.sampled_from(pool)) for _ in range(nd)], "photos": draw(st.integers(0, 2)) == 0,
                      "model": draw(st.sampled_from(N.MODELS)), "alias": False, "params": params})
    if near_one is not None:
        # a table whose sum differs from 1 only in the 7th digit
        lines = lines[: len(near_one)] + [dict(lines[0], d=list(lines[0]["d"]), params=list(lines[0]["params"])) for _ in range(len(near_one) - len(lines))]
        for ln, b in zip(lines, near_one):
            ln["bf"] = b
    opts = {
        "print_model": draw(st.booleans()),
        "display_photos_keyword": draw(st.booleans()),
        "ascending": draw(st.booleans()),
        "normalize": draw(st.integers(0, 3)) == 0,
        "scale": draw(st.one_of(st.none(), st.none(), st.sampled_from((0.5, 1, 1.0, 0.001, 0.3333, 0.75, 1e-9)),
                                st.sampled_from((0.5, 1.0, 0.25)), st.sampled_from((0, 0.0, -0.5, 1.5, 1.0000001, -0.0, "nan", "inf", "-inf", 2, -1)))),
    }
    # further option sets printed afterwards on the same parser instance (nothing may be remembered between calls)
    more = []
    for _ in range(draw(st.integers(0, 2))):
        more.append({"print_model": draw(st.booleans()), "display_photos_keyword": draw(st.booleans()), "ascending": draw(st.booleans()),
                     "normalize": draw(st.sampled_from((False, False, True))), "scale": draw(st.sampled_from((None, None, 0.5, 1.0, 0.25, 2.0)))})
    stmts = [{"k": "decay", "m": mother, "lines": lines}]
    if draw(st.sampled_from((False, False, True))):
        stmts.insert(draw(st.integers(0, 1)), {"k": "define", "n": "dm", "v": draw(N.num_literal())})
        for ln in lines[: 1 + len(lines) // 2]:
            ln["params"] = ln["params"] + [{"t": "word", "v": "dm"}]
    if draw(st.sampled_from((False, False, True))):
        # the file-wide PHOTOS switch says nothing about single rows
        stmts.insert(draw(st.integers(0, len(stmts))), {"k": "photos", "yes": draw(st.sampled_from((True, True, False)))})
    return {"stmts": stmts, "layout": [], "crlf": False, "end": False,
            "pdg_name": pdg_name, "opts": opts, "more_opts": more}


def split_row(row):
    if not row.endswith(";"):
        raise Mismatch("C16:row-format", f"row does not end with ';': {row!r}")
    return [x for x in re.split(r" {2,}", row[:-1].strip()) if x != ""]


def check_case(f, rec):
    text = G.render(f)
    p = make_parser(text, ID)
    if f.get("pdg_name"):
        # the mother addressed by its PDG name must give the same list of modes as by its EvtGen name
        from ..harness import impl as _impl
        mo = next(s["m"] for s in f["stmts"] if s["k"] == "decay")
        with _impl(ID, "list_decay_modes(pdg_name)"):
            a, b = p.list_decay_modes(f["pdg_name"], pdg_name=True), p.list_decay_modes(mo)
        if a != b or a != [ln["d"] for s in f["stmts"] if s["k"] == "decay" for ln in s["lines"]]:
            raise Mismatch("C16:pdg-name-lookup", f"list_decay_modes({f['pdg_name']!r}, pdg_name=True) vs list_decay_modes({mo!r})", b, a)
    for k, o in enumerate([f["opts"]] + list(f.get("more_opts", []))):
        check_print(f, text, p, o, rec, first=(k == 0))
    if any(s["k"] == "define" for s in f["stmts"]):
        # the same text with another value Define'd: a new parser must print the new value
        import copy as _copy

        f2 = _copy.deepcopy(f)
        for s in f2["stmts"]:
            if s["k"] == "define":
                s["v"] = "12.5" if float(s["v"]) != 12.5 else "3.25"
        text2 = G.render(f2)
        check_print(f2, text2, make_parser(text2, ID), dict(f["opts"], print_model=True), rec, first=False)
        rec.classes["second-parser-same-text-other-define"] += 1


def check_print(f, text, p, o, rec, first=True):
    mother = next(s["m"] for s in f["stmts"] if s["k"] == "decay")
    lines = R.decay_tables(f)[mother]
    before = observed_tables(p, ID)
    kw = dict(print_model=o["print_model"], display_photos_keyword=o["display_photos_keyword"], ascending=o["ascending"],
              normalize=o["normalize"], scale=o["scale"])
    if isinstance(kw["scale"], str):  # "nan" / "inf" / "-inf": kept as words so that cases stay strict JSON
        kw["scale"] = float(kw["scale"])
    arg = mother
    if f["pdg_name"]:
        arg, kw["pdg_name"] = f["pdg_name"], True
    scale = kw["scale"]
    must_refuse = scale is not None and (o["normalize"] or not (0.0 < scale <= 1.0))
    bfs = [ln["bf"] for ln in lines]
    classes = ["opt-ascending" if o["ascending"] else "opt-descending", "normalize" if o["normalize"] else ("scale" if scale is not None else "plain")]
    if must_refuse:
        try:
            import contextlib, io
            with contextlib.redirect_stdout(io.StringIO()):
                p.print_decay_modes(arg, **kw)
        except RuntimeError:
            if first:
                rec.case(f, False, classes + ["refused"])
            return
        except Exception as e:  # noqa: BLE001
            raise Mismatch("C16:wrong-refusal", f"expected RuntimeError, got {type(e).__name__}: {e}") from e
        raise Mismatch("C16:not-refused", f"normalize={o['normalize']} scale={scale!r} was accepted", "RuntimeError", "printed")
    if (o["normalize"] or scale is not None) and max(bfs) <= 0.0:
        if first:
            rec.case(f, False, classes + ["skipped-nonpositive-table"])
        return
    out = capture_print(p, ID, arg, **kw)
    rows = [r for r in out.split("\n") if r != ""]
    if len(rows) != len(lines):
        raise Mismatch("C16:row-count", "one row per decay line", len(lines), len(rows))
    factor = 1.0
    if o["normalize"]:
        factor = 1.0 / sum(bfs)
    elif scale is not None:
        factor = scale / max(bfs)

    def payload(ln):
        fields = [" ".join(ln["fs"])]
        if o["print_model"]:
            fields.append(("PHOTOS " if (ln["photos"] and o["display_photos_keyword"]) else "") + ln["model"])
            fields.append(" ".join(str(v) for v in ln["params"]))
        return [x for x in fields if x != ""]

    order = sorted(range(len(lines)), key=lambda i: lines[i]["bf"], reverse=not o["ascending"])  # stable
    got = [split_row(r) for r in rows]
    printed_vals = []
    for r in got:
        try:
            printed_vals.append(float(r[0]))
        except (ValueError, IndexError) as e:
            raise Mismatch("C16:row-format", f"first field is not a number: {r!r}") from e
    # order + content, group-wise for equal stored values
    k = 0
    while k < len(order):
        j = k
        while j + 1 < len(order) and lines[order[j + 1]]["bf"] == lines[order[k]]["bf"]:
            j += 1
        grp = order[k:j + 1]
        exp_payloads = [payload(lines[i]) for i in grp]
        got_payloads = [r[1:] for r in got[k:j + 1]]
        if o["ascending"]:
            ok = Counter(map(tuple, exp_payloads)) == Counter(map(tuple, got_payloads))
        else:
            ok = exp_payloads == got_payloads
        if not ok:
            raise Mismatch("C16:order-or-content", f"rows {k}..{j} (options {kw})", exp_payloads, got_payloads)
        want_v = lines[grp[0]]["bf"] * factor
        for v in printed_vals[k:j + 1]:
            # 7 significant digits: at most half a unit of the 7th digit off (plus 2% slack for the last binary digit)
            half_ulp = 0.51 * 10.0 ** (math.floor(math.log10(abs(want_v))) - 6) if want_v != 0 else 1e-300
            if abs(v - want_v) > half_ulp:
                raise Mismatch("C16:value", f"row value (options {kw}); 7 significant digits", want_v, v)
        k = j + 1
    if o["normalize"] and not math.isclose(sum(printed_vals), 1.0, abs_tol=len(lines) * 1e-6):
        raise Mismatch("C16:normalised-sum", "", 1.0, sum(printed_vals))
    if scale is not None and not math.isclose(max(printed_vals), scale, rel_tol=1e-6):
        raise Mismatch("C16:scaled-max", "", scale, max(printed_vals))
    after = observed_tables(p, ID)
    if before != after:
        raise Mismatch("C16:stored-values-changed", "tables differ after printing", before, after)
    unsorted_ = bfs != sorted(bfs, reverse=True)
    nondefault = o["ascending"] or o["normalize"] or scale is not None or not o["print_model"] or not o["display_photos_keyword"] or bool(f["pdg_name"])
    if len(set(bfs)) < len(bfs):
        classes.append("ties")
    if f["pdg_name"]:
        classes.append("mother-by-pdg-name")
    if not o["print_model"]:
        classes.append("no-model")
    if not first:
        rec.classes["further-print-on-same-parser"] += 1
        return
    rec.case(f, len(lines) >= 3 and unsorted_ and nondefault, classes, sample=lambda: {"text": text, "options": kw, "stdout": out})


def replay(case, rec):
    check_case(case, rec)


def units(tier, seed):
    n = 250 if tier == "quick" else 4000
    return [{"name": f"hyp{k:02d}", "kind": "hyp", "n": n} for k in range(16)]


def run_unit(unit, seed, rec, tier):
    hyp_run(rec, c16_case(), check_case, unit["n"], seed, render=lambda f: G.render(f) + "\noptions: " + repr(f["opts"]))

"""C01 -- decay tables read from a .dec file are exactly what the file states.

Generated: file ASTs (decgen) rendered with a drawn layout; oracle: decref.all_tables, computed
from the AST, never from text.
"""
from __future__ import annotations

import tempfile
from pathlib import Path

from hypothesis import strategies as st

from .. import decgen as G
from .. import decref as R
from .. import names as N
from ..harness import Mismatch, hyp_run, impl
from ..snapshot import capture_print, compare_lines, make_parser, observed_tables

ID = "C01"
LEVEL = "exploration"
RULE = (
    "Hypothesis draws a .dec file as an AST (1-8 Decay blocks incl. empty and repeated mothers, 0-6 lines, 0-6 daughters "
    "over EvtGen names, alias-style names and synthetic labels over the whole label alphabet, all 135 model names, 0-12 "
    "parameters mixing every numeric literal form, words, Define'd names and their negation, ModelAlias'd models, PHOTOS, "
    "interleaved with every other statement kind) plus a layout (indentation, spacing, comments, blank lines, CRLF, commas, "
    "wrapped parameter lists, repeated semicolons, End); the text is rendered and parsed (from_string, 1 in 4 through the file "
    "constructor) and every table/line/field is compared with the reference interpreter over the AST. Labels never equal a "
    "keyword, never start like a number and never start with 'model name + non-word character' (DESIGN 6.1). "
    "A case is non-trivial when it has >=2 Decay blocks or a repeated/empty block, and >=1 line with >=1 daughter and >=1 "
    "parameter; distinct = distinct SHA-1 of the AST."
)
ASSUMPTIONS = [
    "particle package tables (EvtGen names) are trusted as a source of realistic labels only",
    "the reference interpreter pbt/decref.py encodes the statement of C01 (first block wins, empty block = empty table)",
]


@st.composite
def c01_file(draw):
    pool = draw(G.name_pool(4, 10))
    ndef = draw(st.integers(0, 3))
    def_names = []
    stmts_pre = []
    for i in range(ndef):
        nm = draw(st.sampled_from(("dm", "dgamma", "x_s", "Param" + str(i), "a.b", "q'")))
        if nm in pool:
            continue
        def_names.append(nm)
        stmts_pre.append({"k": "define", "n": nm, "v": draw(N.num_literal())})
    nal = draw(st.integers(0, 2))
    mal_names = []
    for i in range(nal):
        nm = draw(st.sampled_from(("MA", "SLBKPOLE_DtoKlnu", "MyModel" + str(i), "SLPOLE_x")))
        if nm in pool or nm in def_names or nm in mal_names or not N.safe_label(nm):
            continue
        mal_names.append(nm)
        stmts_pre.append({"k": "modelalias", "n": nm, "model": draw(st.sampled_from(N.MODELS)),
                          "params": draw(G.params_list(def_names, 8))})
    nblocks = draw(st.integers(1, 8))
    blocks = []
    mothers = []
    for _ in range(nblocks):
        if mothers and draw(st.integers(0, 3)) == 0:
            m = draw(st.sampled_from(mothers))  # repeated mother
        elif mothers and draw(st.integers(0, 5)) == 0:
            # a name that differs from an earlier mother in letter case only is another particle (b_1+ / B_1+, a0 / A0)
            m0 = draw(st.sampled_from(mothers))
            m = draw(st.sampled_from((m0.swapcase(), m0.upper(), m0.lower(), m0.capitalize())))
            if not N.safe_label(m) or m in def_names or m in mal_names:
                m = m0
        else:
            m = draw(st.sampled_from(pool))
        mothers.append(m)
        if draw(st.integers(0, 4)) == 0:
            lines = []
        else:
            lines = draw(st.lists(G.decay_line(pool, def_names, mal_names), min_size=0, max_size=draw(st.sampled_from((6,) * 15 + (25,)))))
        blocks.append({"k": "decay", "m": m, "lines": lines})
    inert = draw(st.lists(G.inert_statement(pool), min_size=0, max_size=6))
    # interleave: every non-block statement goes to a random slot between blocks
    stmts = list(blocks)
    for s in stmts_pre + inert:
        pos = draw(st.integers(0, len(stmts)))
        stmts.insert(pos, s)
    f = {"stmts": stmts}
    f.update(G.file_flags(draw))
    f["via_file"] = draw(st.integers(0, 3)) == 0
    return f


def nontrivial(f):
    blocks = [s for s in f["stmts"] if s["k"] == "decay"]
    ms = [b["m"] for b in blocks]
    structural = len(blocks) >= 2 or any(not b["lines"] for b in blocks) or len(set(ms)) < len(ms)
    rich = any(ln["d"] and (ln["params"] or ln.get("alias")) for b in blocks for ln in b["lines"])
    return structural and rich


def classes(f):
    out = []
    blocks = [s for s in f["stmts"] if s["k"] == "decay"]
    ms = [b["m"] for b in blocks]
    if len(set(ms)) < len(ms):
        out.append("repeated-mother")
    if len({x.lower() for x in set(ms)}) < len(set(ms)):
        out.append("mothers-differing-in-case-only")
    if any(not b["lines"] for b in blocks):
        out.append("empty-block")
    lines = [ln for b in blocks for ln in b["lines"]]
    if any(not ln["d"] for ln in lines):
        out.append("no-daughter-line")
    if any(ln["photos"] for ln in lines):
        out.append("photos-line")
    if any(ln.get("alias") for ln in lines):
        out.append("modelalias-line")
    labels = [d for ln in lines for d in ln["d"]] + ms
    for ch in "~'(/*.+-":
        if any(ch in x for x in labels):
            out.append("label-has-" + ch)
    for ln in lines:
        for p in ln["params"]:
            if p["t"] == "word":
                out.append("param-word")
                if p["v"].startswith("-"):
                    out.append("param-negated-word")
            else:
                v = p["v"]
                if v.endswith("."):
                    out.append("num-1.")
                elif v.startswith("."):
                    out.append("num-.5")
                elif "e" in v or "E" in v:
                    out.append("num-exp")
                elif v.startswith("+"):
                    out.append("num-plus")
                elif v.startswith("-"):
                    out.append("num-neg")
    if f.get("crlf"):
        out.append("crlf")
    if f.get("via_file"):
        out.append("file-constructor")
    elif f.get("nofinal") and not G.render(f).endswith("\n"):
        out.append("no-final-line-end")
    if f.get("layout"):
        out.append("non-plain-layout")
    return sorted(set(out))


def check_case(f, rec, tmpdir=None):
    text = G.render(f)
    exp = R.all_tables(f)
    if f.get("via_file"):
        from ..harness import workdir

        p = make_parser(text, ID, via_file=workdir("c01"))
    else:
        p = make_parser(text, ID)
    obs = observed_tables(p, ID)

    exp_decay = [(m, lines) for m, o, lines in exp if o == "decay"]
    exp_other = [(m, lines) for m, o, lines in exp if o != "decay"]
    obs_m = [m for m, _ in obs]
    n_dec = len(exp_decay)
    if obs_m[:n_dec] != [m for m, _ in exp_decay] or sorted(obs_m[n_dec:]) != sorted(m for m, _ in exp_other):
        raise Mismatch("C01:mothers", "decay mother names / order", [m for m, _, _ in exp], obs_m)
    with impl(ID, "number_of_decays"):
        n = p.number_of_decays
    if n != len(exp):
        raise Mismatch("C01:number_of_decays", "", len(exp), n)
    obs_d = dict(obs)
    for m, lines in exp_decay + exp_other:
        compare_lines(ID, m, lines, obs_d[m])
        # public routes
        with impl(ID, "list_decay_modes"):
            ldm = p.list_decay_modes(m)
        if ldm != [ln["fs"] for ln in lines]:
            raise Mismatch("C01:list_decay_modes", f"mother {m!r}", [ln["fs"] for ln in lines], ldm)
        alld = {d for ln in lines for d in ln["fs"]}
        with impl(ID, "build_decay_chains"):
            ch = p.build_decay_chains(m, stable_particles=alld)
        want = {m: [{"bf": ln["bf"], "fs": ln["fs"], "model": ln["model"], "model_params": ln["params"]} for ln in lines]}
        got = {k: [dict(d, model_params=([] if d["model_params"] == "" else list(d["model_params"])), fs=list(d["fs"])) for d in v]
               for k, v in ch.items()}
        if got != want:
            raise Mismatch("C01:build_decay_chains", f"mother {m!r} with all daughters stable", want, got)
        if lines:
            txt = capture_print(p, ID, m)
            rows = [r for r in txt.splitlines() if r.strip()]
            nph = sum(1 for r in rows if " PHOTOS " in r)
            if len(rows) != len(lines) or nph != sum(1 for ln in lines if ln["photos"]):
                raise Mismatch("C01:print-photos", f"mother {m!r}: rows/PHOTOS count",
                               [len(lines), sum(1 for ln in lines if ln["photos"])], [len(rows), nph])
    rec.case(f, nontrivial(f), classes(f), sample=lambda: {"text": text, "expected_tables": [[m, [l["fs"] for l in ls]] for m, _, ls in exp]})


def replay(case, rec):
    check_case(case, rec)


def units(tier, seed):
    n = 250 if tier == "quick" else 4000
    u = [{"name": f"hyp{k:02d}", "kind": "hyp", "n": n} for k in range(16 if tier == "quick" else 14)]
    if tier != "quick":
        u += [{"name": f"atheris{k}", "kind": "atheris", "runs": 6000} for k in range(2)]
    return u


def run_unit(unit, seed, rec, tier):
    if unit["kind"] == "atheris":
        from ..harness import atheris_unit

        atheris_unit(ID, rec, unit["runs"], seed)
    else:
        hyp_run(rec, c01_file(), check_case, unit["n"], seed, render=G.render)


def FUZZ_TARGET():
    """(strategy, check) for the coverage-guided pass (pbt/fuzz_atheris.py)."""
    return c01_file(), check_case

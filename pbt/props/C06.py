"""C06 -- every supported model name is recognised as itself; unknown models are rejected.

Exhaustive: each of the 135 published names in every position context and all prefix pairs.
Hypothesis: user-registered names (prefixes/extensions of published names and of each other,
names with '-'), registration timing, near-miss unknown words.
"""
from __future__ import annotations

import warnings

from hypothesis import strategies as st

from .. import names as N
from ..harness import Mismatch, hyp_run, impl
from ..snapshot import norm_params

ID = "C06"
LEVEL = "exploration"
RULE = (
    "Exhaustive: each published model name (pinned list of 135; the code's list must be a superset) x {with/without PHOTOS} x "
    "{no / numeric / word parameters} x neighbouring labels that extend the name with a letter, a digit or '_' (as last "
    "daughter, as parameter word, as alias/mother name), and all ordered pairs (p,q) of published names with p a proper prefix "
    "of q on adjacent lines, each also with 1-3 user-registered names present. Hypothesis: user-registered names over "
    "letters, digits, '_', '-' (first and last character a word character) incl. prefixes/extensions of published names and "
    "of each other, registered in one or several calls with grammar()/grammar_info() called before, between or after, or after a first (failed) parse(), or parsed twice; "
    "near-miss unknown words (one character changed/dropped/added, case flipped, two names glued) in the model position "
    "with no/numeric/word parameters must make parse() raise. Non-trivial: a line whose model has a published or registered "
    "proper prefix/extension also present in the same file (exhaustive contexts are distinct by construction)."
)
ASSUMPTIONS = ["the pinned list pbt/data/models.txt is the published list at the pinned commit"]

SUFFIXES = ("q", "7", "_z", "Q9", "x_1", "0", "_", "ZZ")


def extend(model, extra=()):
    """Three labels that extend `model` with a letter, a digit and an underscore and are not
    themselves model names (HQET+2 would be)."""
    out = []
    for group in (("q", "ZZ", "Q9"), ("7", "0", "77"), ("_z", "_", "_1")):
        for s in group:
            lab = model + s
            if N.safe_label(lab, extra) and lab not in N.MODELS and lab not in extra:
                out.append(lab)
                break
    return out


def parse_text(text, extra_calls=(), timing="plain"):
    from decaylanguage import DecFileParser

    with impl(ID, "construct"):
        p = DecFileParser.from_string(text)
        if timing == "grammar-before":
            p.grammar()
        elif timing == "grammar_info-before":
            p.grammar_info()
        elif timing == "parse-before":
            # a first attempt, typically failing with "model not defined ... load_additional_decay_models",
            # followed by the registration and a second parse()
            try:
                with warnings.catch_warnings():
                    warnings.simplefilter("ignore")
                    p.parse()
            except Exception:  # noqa: BLE001
                pass
        for i, call in enumerate(extra_calls):
            p.load_additional_decay_models(*call)
            if timing == "grammar-between" and i == 0:
                p.grammar()
        if timing == "grammar-after":
            p.grammar()
    return p


def details(p, mother):
    with impl(ID, "details"):
        out = []
        for dm in p._find_decay_modes(mother):
            d = p._decay_mode_details(dm, True)
            out.append((list(d["fs"]), d["model"], norm_params(d["model_params"])))
    return out


def context_file(model, extra=()):
    """One file exercising `model` in every position context; returns (text, expected rows)."""
    ext = extend(model, extra)
    e_letter = ext[0] if ext else "qq"
    dl = ext + ["a"]
    rows = [
        (["a", "b"], model, []),
        (["a", "b"], "PHOTOS " + model, []),
        (["a", "b"], model, [1.0, 2.5]),
        (["a", "b"], "PHOTOS " + model, [-0.5]),
        ([], model, []),
        (dl, model, []),                       # daughters that extend the name, last one adjacent to the model
        (["a"] + ext, "PHOTOS " + model, ext + [3.0]),  # parameter words that extend the name
        (["a", e_letter], model, [e_letter]),
    ]
    lines = []
    for fs, m, params in rows:
        ptxt = " ".join(str(x) if not isinstance(x, float) else repr(x) for x in params)
        lines.append(f"0.125 {' '.join(fs)} {m}{(' ' + ptxt) if ptxt else ''};")
    text = "Alias " + e_letter + " a\nDecay M0\n" + "\n".join(lines) + "\nEnddecay\nDecay " + e_letter + "\n1.0 b " + model + ";\nEnddecay\n"
    return text, rows, e_letter


def check_context(model, extra_calls, rec_case):
    extra = tuple(x for c in extra_calls for x in c)
    text, rows, e_letter = context_file(model, extra)
    p = parse_text(text, extra_calls)
    with impl(ID, "parse"), warnings.catch_warnings():
        warnings.simplefilter("ignore")
        p.parse()
    got = details(p, "M0")
    want = [(fs, m, params) for fs, m, params in rows]
    if got != want:
        for i, (g, w) in enumerate(zip(got, want)):
            if g != w:
                raise Mismatch("C06:model-context", f"model {model!r} (registered: {list(extra)}) context {i}", w, g)
        raise Mismatch("C06:model-context", f"model {model!r}: row count", len(want), len(got))
    got2 = details(p, e_letter)
    if got2 != [(["b"], model, [])]:
        raise Mismatch("C06:model-context", f"model {model!r} in block of mother {e_letter!r}", [(["b"], model, [])], got2)
    return text


def prefix_pairs():
    return [(p, q) for p in N.MODELS for q in N.MODELS if p != q and q.startswith(p)]


def check_pair(p_, q_, extra_calls):
    extra = tuple(x for c in extra_calls for x in c)
    suffix = q_[len(p_):]
    rows = [(["a", "b"], p_, []), (["a", "b"], q_, []), (["a", "b"], p_, [0.5]), (["a", "b"], q_, [0.5]), (["a", "b"], "PHOTOS " + q_, []),
            (["a", "b"], p_, [])]
    lines = [f"0.1 a b {p_};", f"0.1 a b {q_};", f"0.1 a b {p_} 0.5;", f"0.1 a b {q_} 0.5;", f"0.1 a b PHOTOS {q_};", f"0.1 a b {p_};"]
    if N.safe_label(suffix, extra):
        rows.append((["a", "b"], p_, [suffix]))
        lines.append(f"0.1 a b {p_} {suffix};")
    text = "Decay M0\n" + "\n".join(lines) + "\nEnddecay\n"
    p = parse_text(text, extra_calls)
    with impl(ID, "parse"), warnings.catch_warnings():
        warnings.simplefilter("ignore")
        p.parse()
    got = details(p, "M0")
    if got != rows:
        raise Mismatch("C06:prefix-pair", f"pair ({p_!r}, {q_!r}) registered={list(extra)}", rows, got)
    return text


FIXED_EXTRA_SETS = ((), (("MYMODEL",),), (("PHSP-X", "BTOXSGAMMA2"), ("CB3PI",)), (("Z", "ZZ_1", "A-B"),))


# ---------------------------------------------------------------------------------------------
# generated part
# ---------------------------------------------------------------------------------------------

_WORD1 = "ABCDEFGHIJKLMNOPQRSTUVWXYZabcdefghijklmnopqrstuvwxyz0123456789_"
_LET = "ABCDEFGHIJKLMNOPQRSTUVWXYZabcdefghijklmnopqrstuvwxyz_"


@st.composite
def user_model(draw, existing=()):
    c = draw(st.integers(0, 9))
    base_pool = list(N.MODELS) + list(existing)
    if c <= 2:
        b = draw(st.sampled_from(base_pool))
        s = b + draw(st.sampled_from(("X", "2", "_NEW", "-X1", "-2", "_", "abc", "-a-b")))
    elif c <= 4:
        b = draw(st.sampled_from(base_pool))
        k = draw(st.integers(1, max(1, len(b) - 1)))
        s = b[:k]
    elif c == 8:
        # a published name in another letter case is a different name
        b = draw(st.sampled_from(N.MODELS))
        s = draw(st.sampled_from((b.lower(), b.capitalize(), b.swapcase(), b.upper())))
    elif c == 5:
        s = draw(st.sampled_from(_WORD1)) + draw(st.text(alphabet=_WORD1 + "-", min_size=0, max_size=6)) + draw(st.sampled_from(_WORD1))
    else:
        s = draw(st.sampled_from(_LET)) + draw(st.text(alphabet=_WORD1 + "-", min_size=0, max_size=6)) + draw(st.sampled_from(_WORD1))
    s = s.strip("-") or "UM"
    if c == 9 and draw(st.booleans()):
        return draw(st.sampled_from(N.MODELS))  # registering a name that is published already must be harmless
    if s in N.KEYWORDS or s in N.MODELS or s in existing:
        s = s + "_u"
    return s


def near_miss(draw, known):
    b = draw(st.sampled_from(sorted(known)))
    how = draw(st.sampled_from(("drop", "dup", "flip", "sub", "glue", "lower")))
    i = draw(st.integers(0, len(b) - 1))
    if how == "drop":
        s = b[:i] + b[i + 1:]
    elif how == "dup":
        s = b[:i] + b[i] + b[i:]
    elif how == "flip":
        s = b[:i] + b[i].swapcase() + b[i + 1:]
    elif how == "sub":
        s = b[:i] + ("Q" if b[i] != "Q" else "W") + b[i + 1:]
    elif how == "glue":
        s = b + draw(st.sampled_from(sorted(known)))
    else:
        s = b.lower()
    return s, how


@st.composite
def c06_case(draw):
    ncalls = draw(st.integers(0, 3))
    calls = []
    allnames = []
    for _ in range(ncalls):
        k = draw(st.integers(1, 3))
        call = []
        for _ in range(k):
            m = draw(user_model(tuple(allnames)))
            if m not in allnames:
                allnames.append(m)
                call.append(m)
        if call:
            calls.append(call)
    timing = draw(st.sampled_from(("plain", "plain", "grammar-before", "grammar_info-before", "grammar-between", "grammar-after", "parse-before", "parse-twice")))
    known = set(N.MODELS) | set(allnames)
    # labels must be safe with respect to the registered names too, and different from them
    labels = []
    for cand in ("a", "b", "K+", "anti-B0", "pi0", "D*(2010)+", "x_1"):
        if N.safe_label(cand, tuple(allnames)) and cand not in known:
            labels.append(cand)
    if not labels:
        labels = ["qq~1"]
    nl = draw(st.integers(1, 6))
    lines = []
    for _ in range(nl):
        use_user = allnames and draw(st.integers(0, 2)) > 0
        model = draw(st.sampled_from(allnames)) if use_user else draw(st.sampled_from(N.MODELS))
        # relatives: names related by prefix get used side by side
        if draw(st.integers(0, 2)) == 0:
            rel = [k for k in known if k != model and (k.startswith(model) or model.startswith(k) or k.lower() == model.lower())]
            if rel:
                model = draw(st.sampled_from(sorted(rel)))
        fs = [draw(st.sampled_from(labels)) for _ in range(draw(st.integers(0, 3)))]
        ext = extend(model, tuple(allnames))
        if ext and draw(st.integers(0, 2)) == 0:
            fs.append(draw(st.sampled_from(ext)))
        pk = draw(st.integers(0, 3))
        params = []
        if pk == 1:
            params = [draw(N.num_literal())]
        elif pk == 2:
            params = [draw(st.sampled_from(ext + ["w_1"])) if ext else "w_1", draw(N.num_literal())]
        elif pk == 3 and ext:
            params = list(ext)
        lines.append({"fs": fs, "photos": draw(st.booleans()), "model": model, "params": params})
    alias = None
    if draw(st.sampled_from((False, False, True))):
        # a ModelAlias defined and used in this file; in other files of the same process the very same word is unknown
        alias = {"name": draw(st.sampled_from(ALIAS_POOL)), "model": draw(st.sampled_from(N.MODELS))}
        if alias["name"] in known or not N.safe_label(alias["name"], tuple(allnames)):
            alias = None
    unknown = None
    if draw(st.integers(0, 2)) == 0:
        if alias is None and draw(st.booleans()):
            w = draw(st.sampled_from(ALIAS_POOL))
            if w not in known and N.safe_label(w, tuple(allnames)) and w not in labels:
                unknown = {"word": w, "how": "alias-of-another-file", "params": "none"}
        for _ in range(5 if unknown is None else 0):
            w, how = near_miss(draw, known)
            if w not in known and N.safe_label(w, tuple(allnames)) and w not in labels:
                unknown = {"word": w, "how": how, "params": draw(st.sampled_from(("none", "num", "word")))}
                break
    return {"calls": calls, "timing": timing, "lines": lines, "unknown": unknown, "alias": alias}


ALIAS_POOL = ("MA_1", "MyAlias", "SLPOLE_x1", "ALIASED", "mdl")


def render_case(c):
    out = []
    al = c.get("alias")
    if al:
        out += [f"ModelAlias {al['name']} {al['model']} 1.0 2.0;"]
    out += ["Decay M0"]
    if al:
        out.append(f"0.25 a {al['name']};")
    for ln in c["lines"]:
        toks = ["0.25", *ln["fs"]] + (["PHOTOS"] if ln["photos"] else []) + [ln["model"], *ln["params"]]
        out.append(" ".join(toks) + ";")
    if c["unknown"]:
        u = c["unknown"]
        extra = {"none": "", "num": " 1.5", "word": " w_1 w_2"}[u["params"]]
        out.append(f"0.25 a {u['word']}{extra};")
    out.append("Enddecay")
    return "\n".join(out) + "\n"


def check_case(c, rec):
    allnames = [m for call in c["calls"] for m in call]
    text = render_case(c)
    p = parse_text(text, c["calls"], c["timing"])
    if c["unknown"]:
        try:
            with warnings.catch_warnings():
                warnings.simplefilter("ignore")
                p.parse()
        except Exception:  # noqa: BLE001  -- the contract is "raises"
            pass
        else:
            raise Mismatch("C06:unknown-accepted", f"unknown model word {c['unknown']['word']!r} accepted", "parse() raises", details(p, "M0"))
    else:
        with impl(ID, "parse"), warnings.catch_warnings():
            warnings.simplefilter("ignore")
            p.parse()
            if c["timing"] == "parse-twice":
                p.parse()  # the registration must still hold for a second parse of the same instance
        want = [(ln["fs"], ("PHOTOS " if ln["photos"] else "") + ln["model"],
                 [float(x) if not N.safe_label(x, tuple(allnames)) else x for x in ln["params"]]) for ln in c["lines"]]
        if c.get("alias"):
            want = [(["a"], c["alias"]["model"], [1.0, 2.0])] + want
        got = details(p, "M0")
        if got != want:
            raise Mismatch("C06:generated", f"registered {c['calls']} timing {c['timing']}", want, got)
    known = set(N.MODELS) | set(allnames)
    used = {ln["model"] for ln in c["lines"]}
    related = any(k != m and (k.startswith(m) or m.startswith(k)) for m in used for k in known)
    classes = ["timing-" + c["timing"], f"calls-{len(c['calls'])}"]
    if c["unknown"]:
        classes += ["unknown-" + c["unknown"]["how"], "unknown-params-" + c["unknown"]["params"]]
    if any("-" in m for m in allnames):
        classes.append("registered-with-dash")
    if any(m[0].isdigit() for m in allnames):
        classes.append("registered-digit-first")
    if any(any(k.startswith(m) and k != m for k in N.MODELS) for m in allnames):
        classes.append("registered-prefix-of-published")
    if any(any(m.startswith(k) and k != m for k in N.MODELS) for m in allnames):
        classes.append("registered-extends-published")
    rec.case(c, related, classes, sample=lambda: {"registered": c["calls"], "timing": c["timing"], "text": text})


def replay(case, rec):
    if "model" in case and "lines" not in case:
        check_context(case["model"], [tuple(x) for x in case.get("calls", [])], None)
        rec.case(case, True)
    elif "pair" in case:
        check_pair(case["pair"][0], case["pair"][1], [tuple(x) for x in case.get("calls", [])])
        rec.case(case, True)
    else:
        check_case(case, rec)


def units(tier, seed):
    n = 150 if tier == "quick" else 2500
    u = [{"name": "published-list", "kind": "list"}]
    for k in range(5):
        u.append({"name": f"enum-contexts{k}", "kind": "ctx", "slice": k, "of": 5})
    u.append({"name": "enum-prefix-pairs", "kind": "pairs"})
    u += [{"name": f"hyp{k:02d}", "kind": "hyp", "n": n} for k in range(9)]
    if tier != "quick":
        u.append({"name": "atheris0", "kind": "atheris", "runs": 6000})
    return u


def run_unit(unit, seed, rec, tier):
    k = unit["kind"]
    if k == "list":
        from decaylanguage.dec.enums import known_decay_models

        missing = [m for m in N.MODELS if m not in known_decay_models]
        if missing:
            m = Mismatch("C06:published-list", "published model names missing from known_decay_models", [], missing)
            m.case = {"missing": missing}
            raise m
        rec.bulk(1, 0)
    elif k == "ctx":
        models = N.MODELS[unit["slice"]::unit["of"]]
        for model in models:
            for calls in FIXED_EXTRA_SETS:
                try:
                    text = check_context(model, calls, None)
                except Mismatch as m:
                    m.case = {"model": model, "calls": [list(c) for c in calls]}
                    raise
                rec.bulk(10, 10, {"context-rows": 10, f"registered-sets-{len(calls)}": 1})
            if len(rec.samples) < 2:
                rec.samples.append({"model": model, "text": text})
        rec.exhaustive.append("135 published names x 10 position contexts x 4 registered-name sets")
    elif k == "pairs":
        pairs = prefix_pairs()
        for p_, q_ in pairs:
            for calls in FIXED_EXTRA_SETS:
                try:
                    text = check_pair(p_, q_, calls)
                except Mismatch as m:
                    m.case = {"pair": [p_, q_], "calls": [list(c) for c in calls]}
                    raise
                rec.bulk(6, 6, {"prefix-pair-rows": 6})
        rec.samples.append({"prefix_pair": list(pairs[0]), "text": text})
        rec.exhaustive.append(f"all {len(pairs)} ordered prefix pairs of published names x 4 registered-name sets")
    elif k == "atheris":
        from ..harness import atheris_unit

        atheris_unit(ID, rec, unit["runs"], seed)
    else:
        hyp_run(rec, c06_case(), check_case, unit["n"], seed, render=render_case)


def FUZZ_TARGET():
    return c06_case(), check_case

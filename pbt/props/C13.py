"""C13 -- a decay descriptor string determines the decay tree it was made from."""
from __future__ import annotations

import itertools

from hypothesis import strategies as st

from .. import chains as C
from .. import names as N
from ..snapshot import make_parser
from ..harness import Mismatch, hyp_run, impl

ID = "C13"
LEVEL = "exploration"
RULE = (
    "Exhaustive: all tree shapes over n<=5 (thorough: n<=6) decaying particles (multiplicities <=2; for n<=4 also with a particle re-occurring below "
    "a second parent) over names containing parentheses, quotes, signs and stars, x every permutation of the sub-decay "
    "mapping, x daughter lists reversed. Hypothesis: chains with <=8 decaying particles over real EvtGen names and synthetic "
    "names with balanced parentheses, and a family of patterns {mother} ARROW {daughters} / OPEN{mother} ARROW {daughters}CLOSE "
    "with ARROW in {->, -->, =>, unicode arrow}, brackets in {(), [], {{}}, <>} plus the documented '{mother} (=> {daughters})' "
    "style and patterns with runs of blanks/tabs/newlines (compared with a reference renderer); the same chain object is rendered under "
    "several formats in turn. Oracle: a bracket-matching reader reproduces mother, nesting and daughter multisets at every level; the string is "
    "identical for every order of daughters and sub-decays; under DescriptorFormat(p1,p2) p1 is used at depth 0 and p2 at "
    "every depth >=1. Non-trivial: (nesting depth >=2 or a repeated decaying daughter) and >=1 name containing '('."
)
ASSUMPTIONS = ["names have balanced parentheses and do not start with '(' (DESIGN 6.9)"]

ARROWS = ("->", "-->", "=>", "→")
BRACKETS = (("(", ")"), ("[", "]"), ("{", "}"), ("<", ">"))


def to_string(case, patterns=None, dc=None):
    """Render; with `dc` the same chain object is rendered again (nothing may be remembered from earlier renderings)."""
    from decaylanguage.utils import DescriptorFormat

    with impl(ID, "to_string"):
        if dc is None:
            dc = C.build_chain(case)
        if patterns is None:
            return dc.to_string()
        ctx = DescriptorFormat(patterns[0], patterns[1])
        DescriptorFormat("{mother} ?? {daughters}", "({mother} ?? {daughters})")  # another object prepared meanwhile, never entered
        with ctx:
            # an inner block that has been left, and a rejected pair, leave the chosen patterns in force
            with DescriptorFormat("{mother} ~> {daughters}", "<<{mother} ~> {daughters}>>"):
                pass
            try:
                with DescriptorFormat("{mother} ~~> {daughters}", "<{mother} ~~> {daughters}>"):
                    raise LookupError("an inner block left through an exception")
            except LookupError:
                pass
            try:
                DescriptorFormat.set_config("{mother} !! {daughters}", "({mother} !! {daughter})")
            except ValueError:
                pass
            return dc.to_string()


def ref_render(tree, p1, p2, top=True):
    """Reference renderer: str.format of the patterns, daughters (rendered sub-decays included) in sorted order."""
    m, ch = tree
    parts = sorted(c if isinstance(c, str) else ref_render(c, p1, p2, False) for c in ch)
    return (p1 if top else p2).format(mother=m, daughters=" ".join(parts))


WS_PATTERNS = (("{mother}  -->  {daughters}", "[ {mother} -> {daughters} ]"), (" {mother} -> {daughters} ", "({mother}\t->\t{daughters})"),
               ("{mother} ->   {daughters}", "(  {mother} -> {daughters})"), ("{mother}\n-> {daughters}", "({mother} ->  {daughters}  )"))


def read_postfix(s, arrow, sub_arrow):
    """Reader for the documented style 'M => d1 (=> x y) d2': a token '(ARROW ...)' is the decay of
    the token before it."""
    toks = C.split_top(s)
    if len(toks) < 2 or toks[1] != arrow:
        raise C.DescriptorError(f"no top arrow in {s!r}")

    def children(tokens):
        out = []
        for t in tokens:
            if t == "":
                continue  # a decay without daughters leaves an empty daughters string
            if t.startswith("(" + sub_arrow + " ") and t.endswith(")"):
                if not out or not isinstance(out[-1], str):
                    raise C.DescriptorError(f"sub-decay without a mother in {s!r}")
                inner = C.split_top(t[1:-1])
                out[-1] = C.canon(out[-1], children(inner[1:]))
            else:
                out.append(t)
        return out

    return C.canon(toks[0], children(toks[2:]))


def check_default(case):
    s = to_string(case)
    want = C.ref_tree(case)
    try:
        got = C.read_descriptor(s)
    except C.DescriptorError as e:
        raise Mismatch("C13:unreadable", f"{s!r}: {e}") from e
    if got != want:
        raise Mismatch("C13:tree", f"descriptor {s!r}", want, got)
    return s, want


def parser_prelude(c):
    """Before anything is rendered, a .dec text in which this chain's decaying names are aliases of other particles is
    expanded through the parser (the expansion shares its code with to_string): nothing of it may linger."""
    from .. import names as N

    xs = [m for m, _, _, _ in c["decays"] if N.safe_label(m)][:2]
    if not xs:
        return False
    lines = []
    for i, x in enumerate(xs):
        lines += [f"Alias {x} zz_target{i}", f"Decay {x}", "1.0 zz_a zz_b PHSP;", "Enddecay"]
    lines += ["Decay zz_top", "1.0 " + " ".join(xs) + " zz_c PHSP;", "Enddecay"]
    p = make_parser("\n".join(lines) + "\n", ID)
    with impl(ID, "expand_decay_modes (prelude)"):
        p.expand_decay_modes("zz_top")
    return True


def check_case(case, rec):
    c = case["chain"]
    prelude = bool(case.get("parser_first")) and parser_prelude(c)
    s, want = check_default(c)
    # order independence: permuted sub-decay mapping and permuted daughters
    alt = {"mother": c["mother"], "decays": [[m, b, [ds[i] for i in case["dperm"][: len(ds)] if i < len(ds)] + [], md] for m, b, ds, md in reversed(c["decays"])]}
    for d, orig in zip(alt["decays"], reversed(c["decays"])):
        # dperm may not be a permutation of this daughter list: fall back to reversal
        if sorted(d[2]) != sorted(orig[2]):
            d[2] = list(reversed(orig[2]))
    s2 = to_string(alt)
    if s2 != s:
        raise Mismatch("C13:order-dependent", "descriptor differs when daughters / sub-decays are supplied in another order", s, s2)
    pat = case.get("patterns")
    classes = ["after-a-parser-expansion-with-these-names-as-aliases"] if prelude else []
    with impl(ID, "build"):
        dc_same = C.build_chain(c)
    if to_string(c, None, dc_same) != s:
        raise Mismatch("C13:unstable", "two chains built from the same input render differently", s, to_string(c, None, dc_same))
    if case.get("ws") is not None:
        p1, p2 = WS_PATTERNS[case["ws"] % len(WS_PATTERNS)]
        got_ws = to_string(c, (p1, p2), dc_same)
        want_ws = ref_render(want, p1, p2)
        if got_ws != want_ws:
            raise Mismatch("C13:pattern-not-followed", f"patterns {p1!r}, {p2!r}", want_ws, got_ws)
        classes.append("whitespace-rich-patterns")
    if pat:
        kind = pat["kind"]
        if kind == "postfix":
            p1, p2 = "{mother} " + pat["a1"] + " {daughters}", "{mother} (" + pat["a2"] + " {daughters})"
            s3 = to_string(c, (p1, p2), dc_same)
            try:
                got = read_postfix(s3, pat["a1"], pat["a2"])
            except C.DescriptorError as e:
                raise Mismatch("C13:unreadable-pattern", f"{s3!r}: {e}") from e
        else:
            o, cl = pat["open"], pat["close"]
            esc = lambda x: x.replace("{", "{{").replace("}", "}}")
            p1 = "{mother} " + pat["a1"] + " {daughters}"
            p2 = esc(o) + "{mother} " + pat["a2"] + " {daughters}" + esc(cl)
            s3 = to_string(c, (p1, p2), dc_same)
            try:
                got = C.read_descriptor(s3, arrow=pat["a1"], sub_arrow=pat["a2"], open_=o, close=cl)
            except C.DescriptorError as e:
                raise Mismatch("C13:unreadable-pattern", f"{s3!r} with {p1!r},{p2!r}: {e}") from e
        if got != want:
            raise Mismatch("C13:tree-pattern", f"{s3!r} with patterns {p1!r}, {p2!r}", want, got)
        after = to_string(c, None, dc_same)
        if after != s:
            raise Mismatch("C13:format-leaked", "default rendering changed after a DescriptorFormat block", s, after)
        classes += ["pattern-" + kind, "brackets-" + pat.get("open", "postfix")]
    names = {d[0] for d in c["decays"]} | {x for d in c["decays"] for x in d[2]}
    deep = C.tree_depth(want) >= 3
    rep = C.has_repeated_subdecay(want)
    if rep:
        classes.append("repeated-decaying-daughter")
    if deep:
        classes.append("depth>=2")
    rec.case(case, (deep or rep) and any("(" in n for n in names), classes, sample=lambda: {"descriptor": s, "patterns": pat})


@st.composite
def gen_case(draw):
    label = st.one_of(st.sampled_from(C.DESCRIPTOR_NAMES), st.sampled_from(N.evtgen_safe()),
                      N.synthetic_label(max_size=7).filter(C.descriptor_safe))
    c = draw(C.chain_case(max_decaying=8, max_daughters=4, max_mult=2, names=label, bf=True))
    pk = draw(st.integers(0, 3))
    pat = None
    if pk == 1:
        o, cl = draw(st.sampled_from(BRACKETS))
        arrows = [a for a in ARROWS if cl not in a and o not in a]
        pat = {"kind": "family", "open": o, "close": cl, "a1": draw(st.sampled_from(arrows)), "a2": draw(st.sampled_from(arrows))}
    elif pk == 2:
        pat = {"kind": "postfix", "a1": draw(st.sampled_from(ARROWS)), "a2": draw(st.sampled_from(ARROWS))}
    return {"chain": c, "patterns": pat, "dperm": draw(st.permutations(list(range(6)))), "ws": draw(st.one_of(st.none(), st.integers(0, 3))),
            "parser_first": draw(st.sampled_from((False,) * 7 + (True,)))}


def replay(case, rec):
    check_case(case, rec)


def enum_unit(n, second, rec, slice_=None):
    count = nt = 0
    for k_, shape in enumerate(C.enum_shapes(n, 2, second)):
        if slice_ is not None and k_ % slice_[1] != slice_[0]:
            continue
        s, want = None, None
        for perm in itertools.permutations(range(n)):
            for rev in (False, True):
                case = {"mother": shape["mother"],
                        "decays": [[m, b, (list(reversed(ds)) if rev else ds), md] for m, b, ds, md in (shape["decays"][i] for i in perm)]}
                try:
                    s1, w1 = check_default(case)
                    if s is None:
                        s, want = s1, w1
                    elif s1 != s:
                        raise Mismatch("C13:order-dependent", "descriptor differs between orders of supply", s, s1)
                except Mismatch as m:
                    m.case = {"chain": case, "patterns": None, "dperm": [0, 1, 2, 3, 4, 5]}
                    raise
                count += 1
                isnt = C.tree_depth(want) >= 3 or C.has_repeated_subdecay(want)
                nt += isnt
        if len(rec.samples) < 2 and n >= 3:
            rec.samples.append({"descriptor": s})
    rec.bulk(count, nt, {f"enum-n{n}{'-2nd-parent' if second else ''}": count})
    rec.exhaustive.append(f"shapes n={n} mult<=2{' +second parent' if second else ''} x permutations x reversed daughters")


def units(tier, seed):
    quick = tier == "quick"
    u = [{"name": f"enum-n{n}", "kind": "enum", "n": n, "second": True} for n in (1, 2, 3, 4)]
    u.append({"name": "enum-n5", "kind": "enum", "n": 5, "second": False})
    if not quick:
        u += [{"name": f"enum-n6-{k}", "kind": "enum", "n": 6, "second": False, "slice": [k, 8]} for k in range(8)]
    u += [{"name": f"hyp{k:02d}", "kind": "hyp", "n": 300 if quick else 5000} for k in range(12)]
    return u


def run_unit(unit, seed, rec, tier):
    if unit["kind"] == "enum":
        enum_unit(unit["n"], unit["second"], rec, unit.get("slice"))
    else:
        hyp_run(rec, gen_case(), check_case, unit["n"], seed)

"""C15 -- the chain graph has one node and one labelled edge per decay line."""
from __future__ import annotations

import json

from hypothesis import strategies as st

from .. import chains as C
from .. import decgen as G
from .. import decref as R
from .. import dotread as D
from ..harness import Mismatch, hyp_run, impl
from ..snapshot import make_parser

ID = "C15"
LEVEL = "exploration"
RULE = (
    "Hypothesis draws sessions of 2-4 chain dictionaries: from generated acyclic table sets through build_decay_chains "
    "(several lines per particle incl. >=4, repeated decaying daughters, empty tables, lines without daughters, EvtGen-specific "
    "spellings, aliases) and from DecayChain.to_dict(); each DecayChainViewer source is read by Graphviz itself (dot -Tjson0: "
    "acceptance = exit status; nodes with their HTML cells and ports, edges with tail port and label). Oracle: an independent "
    "walk over the chain dictionary predicts the rooted, port-labelled tree (root 'mother' with one cell; one node per decay "
    "line with the daughters in order as cells; one edge from the root or from the slot of the decaying daughter, labelled "
    "str(bf)); compared up to node identifiers, which must be unique within a graph and, for non-root nodes, across the "
    "graphs of the session. Non-trivial: >=2 levels and (a table with >=2 lines below the root or a repeated decaying daughter)."
)
ASSUMPTIONS = ["Graphviz dot 2.43 as installed decides 'accepted by Graphviz'", "cell text reference: particle.latex_to_html_name over particle's EvtGen->LaTeX name map, else the name verbatim",
               "the root node identifier is the fixed name 'mother' in every graph; uniqueness across graphs is required of all other nodes"]


def cell_text(name):
    from particle import latex_to_html_name
    from particle.converters.bimap import DirectionalMaps

    global _MAP
    try:
        _MAP
    except NameError:
        _MAP = DirectionalMaps("EvtGenName", "LaTexName")[0]
    try:
        return latex_to_html_name(_MAP[name])
    except Exception:
        return name


def expected_tree(chain):
    """('cells', [(port, label, subtree)...])"""
    (mother, modes), = chain.items()

    def node_for(mode):
        cells = [next(iter(p)) if isinstance(p, dict) else p for p in mode["fs"]]
        children = []
        for i, p in enumerate(mode["fs"]):
            if isinstance(p, dict):
                (_, sub), = p.items()
                for m2 in sub:
                    children.append((f"p{i}", str(m2["bf"]), node_for(m2)))
        return (tuple(cell_text(c) for c in cells), tuple(sorted(children, key=repr)))

    return ((cell_text(mother),), tuple(sorted(((None, str(m["bf"]), node_for(m)) for m in modes), key=repr)))


def observed_tree(g):
    nodes, edges = g["nodes"], g["edges"]
    heads_ = {h for _, _, h, _ in edges}
    roots = [n for n in nodes if n not in heads_]
    if len(roots) != 1:
        raise Mismatch("C15:no-root", f"expected exactly one node without incoming edge (the mother), found {sorted(roots)[:5]}", None, sorted(nodes)[:10])
    ROOT = roots[0]
    by_tail = {}
    heads = {}
    for t, port, h, lab in edges:
        by_tail.setdefault(t, []).append((port, lab, h))
        heads[h] = heads.get(h, 0) + 1
    for h, n in heads.items():
        if n != 1:
            raise Mismatch("C15:edges", f"node {h} has {n} incoming edges (exactly one expected)")
    seen = set()

    def build(name):
        if name in seen:
            raise Mismatch("C15:not-a-tree", f"node {name} reached twice")
        seen.add(name)
        cells = tuple(body for _, body in nodes[name] if not (body == "" and len(nodes[name]) == 1))
        ports = [p for p, _ in nodes[name]]
        for port, lab, h in by_tail.get(name, []):
            if name != ROOT and port not in ports:
                raise Mismatch("C15:port", f"edge from {name}:{port} but the node has ports {ports}")
        children = tuple(sorted(((port if name != ROOT else None, lab, build(h)) for port, lab, h in by_tail.get(name, [])), key=repr))
        return (cells, children)

    tree = build(ROOT)
    extra = set(nodes) - seen
    if extra:
        raise Mismatch("C15:extra-nodes", f"nodes not reachable from the root: {sorted(extra)}")
    return tree


def count_lines(chain):
    (m, modes), = chain.items()
    n = len(modes)
    for mode in modes:
        for p in mode["fs"]:
            if isinstance(p, dict):
                n += count_lines(p)
    return n


ATTRS = ({}, {}, {}, {"name": "G1"}, {"name": "G1"}, {"name": "my graph"}, {"graph_attr": {"rankdir": "TB"}}, {"node_attr": {"fontsize": "9"}},
         {"edge_attr": {"fontsize": "7"}, "name": "DecayChainGraph"}, {"comment": "x"})


@st.composite
def session_case(draw):
    k = draw(st.integers(2, 4))
    items = []
    for _ in range(k):
        if draw(st.integers(0, 3)) == 0:
            items.append({"kind": "class", "chain": draw(C.chain_case(max_decaying=5, max_daughters=3, max_mult=2))})
        else:
            f = draw(G.table_set_file(2, 6, max_lines=5, max_daughters=4))
            items.append({"kind": "file", "ast": f, "pick": draw(st.integers(0, 9))})
    # user attributes of the underlying Digraph (name, graph/node/edge attributes): presentation only
    attrs = [draw(st.sampled_from(ATTRS)) for _ in items]
    return {"items": items, "share": draw(st.sampled_from((False, False, True))), "attrs": attrs}


def check_case(case, rec):
    from decaylanguage import DecayChainViewer

    chains = []
    for it in case["items"]:
        if it["kind"] == "class":
            with impl(ID, "to_dict"):
                chains.append(C.build_chain(it["chain"]).to_dict())
        else:
            f = it["ast"]
            tables = R.decay_tables(f)
            ms = [m for m in tables if R.count_nodes(tables, m) <= 150]
            if not ms:
                continue
            m = ms[it["pick"] % len(ms)]
            p = make_parser(G.render(f), ID)
            with impl(ID, "build_decay_chains"):
                chains.append(p.build_decay_chains(m))
    if case.get("share"):
        # a hand-built chain dictionary may refer to one sub-chain object from several slots
        def share(node, memo):
            (k, modes), = node.items()
            for mode in modes:
                for i, p_ in enumerate(mode["fs"]):
                    if isinstance(p_, dict):
                        share(p_, memo)
                        mode["fs"][i] = memo.setdefault(repr(p_), p_)
            return node
        chains = [share(ch, {}) for ch in chains]
    sources = []
    for i, ch in enumerate(chains):
        at = json.loads(json.dumps((case.get("attrs") or [{}])[i % len(case.get("attrs") or [{}])]))
        with impl(ID, "DecayChainViewer"):
            sources.append(DecayChainViewer(ch, **at).to_string())
    graphs = D.read_graphs(sources)
    all_ids = []
    nt = False
    classes = set()
    for ch, src, g in zip(chains, sources, graphs):
        if isinstance(g, str):
            raise Mismatch("C15:rejected-by-graphviz", g, None, src[:1500])
        want = expected_tree(ch)
        got = observed_tree(g)
        nl = count_lines(ch)
        if len(g["nodes"]) != 1 + nl or len(g["edges"]) != nl:
            raise Mismatch("C15:counts", "one node and one edge per decay line (plus the root)", [1 + nl, nl], [len(g["nodes"]), len(g["edges"])])
        if got != want:
            raise Mismatch("C15:tree", "graph differs from the walk over the chain dictionary", repr(want)[:1500], repr(got)[:1500])
        heads_ = {h for _, _, h, _ in g["edges"]}
        ids = [n for n in g["nodes"] if n in heads_]
        all_ids += ids
        depth2 = any(isinstance(p, dict) and next(iter(p.values())) for mode in next(iter(ch.values())) for p in mode["fs"])
        multi = any(isinstance(p, dict) and len(next(iter(p.values()))) >= 2 for mode in next(iter(ch.values())) for p in mode["fs"])
        rep = any(sum(1 for p in mode["fs"] if isinstance(p, dict) and next(iter(p)) == next(iter(q))) >= 2
                  for mode in next(iter(ch.values())) for q in mode["fs"] if isinstance(q, dict))
        if depth2 and (multi or rep):
            nt = True
        if rep:
            classes.add("repeated-decaying-daughter")
        if any(len(next(iter(p.values()))) >= 4 for mode in next(iter(ch.values())) for p in mode["fs"] if isinstance(p, dict)) or len(next(iter(ch.values()))) >= 4:
            classes.add("table-with->=4-lines")
        if any(isinstance(p, dict) and not next(iter(p.values())) for mode in next(iter(ch.values())) for p in mode["fs"]):
            classes.add("empty-table-daughter")
        if any(not mode["fs"] for mode in next(iter(ch.values()))):
            classes.add("line-without-daughters(F16)")
    if len(set(all_ids)) != len(all_ids):
        dup = sorted({i for i in all_ids if all_ids.count(i) > 1})
        raise Mismatch("C15:ids-not-unique-across-graphs", f"node identifiers reused in one session: {dup[:5]}")
    classes.add(f"session-{len(chains)}-graphs")
    if case.get("share"):
        classes.add("equal-sub-chains-shared-by-reference")
    rec.case(case, nt, sorted(classes), sample=lambda: {"chain": chains[0] if chains else None, "dot_source": sources[0][:1200] if sources else None})


def replay(case, rec):
    check_case(case, rec)


def units(tier, seed):
    n = 120 if tier == "quick" else 2500
    return [{"name": f"hyp{k:02d}", "kind": "hyp", "n": n} for k in range(16)]


def run_unit(unit, seed, rec, tier):
    if not D.dot_available():
        raise RuntimeError("graphviz 'dot' executable not found")
    hyp_run(rec, session_case(), check_case, unit["n"], seed)

"""C19 -- C++ and Python GooFit outputs describe the same, self-contained model."""
from __future__ import annotations

import contextlib
import io
import math
import os
import re
import subprocess
import sys
import tempfile
from pathlib import Path

from hypothesis import strategies as st

from .. import ampgen as A
from .. import goofit_read as GR
from .. import names as N
from ..harness import Mismatch, hyp_run, impl

ID = "C19"
LEVEL = "exploration"
RULE = (
    "Differential between the two back ends. Inputs: the shipped model models/DtoKpipipi_v2.txt (as is, and with an sA_0 line "
    "appended) and Hypothesis-generated four-body option files (1-4 amplitudes over the 12 supported spin structures, both "
    "topologies, all lineshape kinds, fixed and free couplings, 0-5 extra fit parameters with fixed/free flags and errors, the "
    "spline families X::Spline::{Min,Max,N} + X::Spline::Gamma::i of every GSpline'd resonance and the complete K-matrix family). "
    "The C++ text is read with a regex/bracket reader, the Python text is compiled and executed against a recording stand-in for "
    "goofit exporting only API names; the two model records must agree field by field (event type, mass constants, resonance "
    "M/W variables, parameters with value/error/fixedness, arrays, amplitudes in input order with coefficient names/values/"
    "fixedness, spin factors, lineshapes); every model symbol must be declared before use in both; _r != _i; ret_output=True "
    "equals captured stdout; the command-line entry point prints the same (a fixed two-line file in the quick tier, generated files in the thorough tier). Non-trivial: >=2 amplitudes, >=1 free "
    "coupling and >=1 non-RBW lineshape."
)
ASSUMPTIONS = ["the recording stand-in pbt/stub/goofit.py enforces names and call shapes of the GooFit Python API, not its semantics (GooFit is not installed)",
               "mass selectors M_ij / M_ij_k are GooFit API symbols, not model symbols", "lookup memo per worker (DESIGN 4.0); command-line runs have none"]

ANSI = re.compile(r"\x1b\[[0-9;]*m")
API_SYMBOLS = re.compile(r"^(M_\d\d(_\d)?|true|false|True|False|FF::BL2|FF\.BL2)$")


def strip_volatile(text):
    text = ANSI.sub("", text)
    return "\n".join(l for l in text.split("\n") if not l.startswith("Generated on "))


def shape_only_sA0(case):
    return True


SHAPES = {}


def convert_both(path, py_first=False):
    """Both conversions of one file, in either order (each back end must stand on its own: the Python
    conversion may not rely on a preceding C++ conversion of the same file, nor the other way round)."""
    from decaylanguage.modeling.ampgen2goofit import ampgen2goofit, ampgen2goofitpy

    A.install_memo()
    py = None
    if py_first:
        path = Path(path)  # the file name may be given as a path object as well as a string
        with impl(ID, "ampgen2goofitpy"):
            py = ampgen2goofitpy(path, ret_output=True)
    with impl(ID, "ampgen2goofit"):
        cpp = ampgen2goofit(path, ret_output=True)
    if py is None:
        with impl(ID, "ampgen2goofitpy"):
            py = ampgen2goofitpy(path, ret_output=True)
    return cpp, py


def split_py(text):
    """The Python output is a docstring header followed by code."""
    parts = text.split("'''")
    return parts[2] if len(parts) >= 3 else text


def cpp_blocks(body):
    return re.split(r"^\s*// Line \d+\s*$", body, flags=re.M)[1:]


def check_declared_before_use_cpp(body, rec_cpp):
    declared_at = {}
    for pos, _, name in rec_cpp["order"]:
        declared_at.setdefault(name, pos)
    undeclared = set()
    used = []
    for m in GR._LS.finditer(body):
        args, _ = GR._call_args(body, m.end())
        for a in GR.split_args(args):
            a = a.strip()
            if re.fullmatch(r"[A-Za-z_]\w*", a):
                used.append((m.start(), a))
    for name, elems in rec_cpp["arrays"].items():
        pos = declared_at.get(name, 0)
        used += [(pos, e) for e in elems]
    for pos, name in used:
        if API_SYMBOLS.match(name):
            continue
        if name not in declared_at or declared_at[name] > pos:
            undeclared.add(name)
    pm = rec_cpp["particle_masses"] or []
    for name in pm:
        if name not in declared_at:
            undeclared.add(name)
    return undeclared


def near(a, b):
    if a is None or b is None:
        return a is None and b is None
    return math.isclose(float(a), float(b), rel_tol=1e-9, abs_tol=1e-12)


def _is_var(x):
    return type(x).__name__ == "Variable" and hasattr(x, "rest")


def compare_models(cpp_text, py_text, defines_sA0, has_kmatrix, label):
    """-> (F17 shape hit, number of amplitudes).  Raises Mismatch on any disagreement."""
    rc, body = GR.cpp_model(cpp_text)
    undeclared = check_declared_before_use_cpp(body, rc)
    f17 = False
    # The property is conditional on the file defining what its lineshapes need: the K-matrix scalars that
    # the input does not define may be undeclared -- exactly those, identified by their argument position.
    allowed = set()
    if has_kmatrix and not defines_sA0:
        allowed = {c["symbols"][0] for c in rc["lineshapes"] if c["kind"] == "kMatrix"}
    if undeclared - allowed:
        raise Mismatch("C19:cpp-undeclared-symbol", f"{label}: C++ output uses symbols that are not declared earlier", sorted(allowed), sorted(undeclared))
    code = split_py(py_text)
    pre = tuple(sorted(undeclared & allowed))
    try:
        rp, ns = GR.run_python_output(code, preseed=pre)
    except SyntaxError as e:
        raise Mismatch("C19:python-syntax", f"{label}: generated Python is not valid: {e}") from e
    except NameError as e:
        raise Mismatch("C19:python-undeclared-symbol", f"{label}: {e}") from e
    except Exception as e:  # noqa: BLE001
        raise Mismatch("C19:python-does-not-run", f"{label}: {type(e).__name__}: {e}") from e
    m = re.search(r"#Event type:\s*(.*)", code)
    if (m.group(1).strip() if m else None) != rc["event"]:
        raise Mismatch("C19:event-type", label, rc["event"], m.group(1) if m else None)
    for name, val in rc["constants"].items():
        if name not in ns or not isinstance(ns[name], float) or not near(ns[name], val):
            raise Mismatch("C19:mass-constant", f"{label}: {name}", val, ns.get(name))
    di = rp["decayinfo"]
    py_masses = list(getattr(di, "particle_masses", ()))
    cpp_masses = [rc["constants"].get(n) for n in (rc["particle_masses"] or [])]
    if len(py_masses) != len(cpp_masses) or not all(near(a, b) for a, b in zip(cpp_masses, py_masses)):
        raise Mismatch("C19:particle-masses", label, cpp_masses, py_masses)
    py_vars = {k: v for k, v in ns.items() if _is_var(v) and k not in pre}
    if set(py_vars) != set(rc["variables"]):
        raise Mismatch("C19:variables", f"{label}: declared Variable symbols differ", sorted(rc["variables"]), sorted(py_vars))
    for k, cv in rc["variables"].items():
        pv = py_vars[k]
        perr = pv.error
        if pv.name != cv["label"] or not near(pv.value, cv["value"]) or (cv["error"] is None) != (perr is None) or not near(perr, cv["error"]):
            raise Mismatch("C19:variable", f"{label}: {k} (label, value, error/fixedness)", cv, {"label": pv.name, "value": pv.value, "error": perr})
    py_arrays = {k: [x.name for x in v] for k, v in ns.items() if isinstance(v, list) and v and all(_is_var(x) for x in v)}
    py_arrays.update({k: [] for k, v in ns.items() if isinstance(v, list) and not v and k.endswith("_SplineArr")})
    label_of = {k: v["label"] for k, v in rc["variables"].items()}
    cpp_arrays = {k: [label_of.get(e, e) for e in v] for k, v in rc["arrays"].items()}
    if {k: v for k, v in cpp_arrays.items()} != {k: v for k, v in py_arrays.items() if k in cpp_arrays or v}:
        raise Mismatch("C19:arrays", f"{label}: variable arrays differ", cpp_arrays, py_arrays)
    # --- amplitudes
    blocks = cpp_blocks(body)
    camps = rc["amplitudes"]
    pamps = rp["amplitudes"]
    if len(camps) != len(pamps) or len(blocks) != len(camps):
        raise Mismatch("C19:amplitude-count", label, len(camps), [len(pamps), len(blocks)])
    for i, (ca, pa, blk) in enumerate(zip(camps, pamps, blocks)):
        where = f"{label}: amplitude {i} {ca['name']}"
        if ca["r_name"] == ca["i_name"] or pa.re.name == pa.im.name:
            raise Mismatch("C19:coefficient-names", f"{where}: real and imaginary coefficients share a name", None, [ca["r_name"], ca["i_name"], pa.re.name, pa.im.name])
        if (ca["name"], ca["r_name"], ca["i_name"], ca["n"]) != (pa.name, pa.re.name, pa.im.name, pa.n):
            raise Mismatch("C19:amplitude", f"{where}: name / coefficient names / count", [ca["name"], ca["r_name"], ca["i_name"], ca["n"]], [pa.name, pa.re.name, pa.im.name, pa.n])
        if not near(ca["re"], pa.re.value) or not near(ca["im"], pa.im.value):
            raise Mismatch("C19:amplitude-value", where, [ca["re"], ca["im"]], [pa.re.value, pa.im.value])
        if ca["fixed"] != pa.re.fixed or ca["fixed_i"] != pa.im.fixed:
            raise Mismatch("C19:amplitude-fixedness", where, [ca["fixed"], ca["fixed_i"]], [pa.re.fixed, pa.im.fixed])
        if not pa.re.fixed and (not near(ca["re_err"], pa.re.error) or not near(ca["im_err"], pa.im.error)):
            raise Mismatch("C19:amplitude-error", where, [ca["re_err"], ca["im_err"]], [pa.re.error, pa.im.error])
        csf = GR.spin_factors(blk)
        psf = [(s.kind, s.indices) for s in pa.spinfactors]
        if csf != psf:
            raise Mismatch("C19:spin-factors", where, csf, psf)
        cls_ = GR.lineshapes(blk)
        if len(cls_) != len(pa.lineshapes):
            raise Mismatch("C19:lineshapes", f"{where}: number of lineshapes", len(cls_), len(pa.lineshapes))
        for j, (c, p) in enumerate(zip(cls_, pa.lineshapes)):
            cm = [c["kind"], c["name"], label_of.get(c["M"], c["M"]), label_of.get(c["W"], c["W"]), float(c["L"]), c["mass"], c["ff"]]
            pm = [p.kind, p.name, p.M.name, p.W.name, float(p.L), p.mass.name, getattr(p.ff, "name", None)]
            if c["kind"] != "RBW":
                cm.append(float(c["radius"]))
                pm.append(float(p.radius))
            if c["kind"] == "GSpline":
                cm += [[float(x) for x in c["spline"]], cpp_arrays.get(c["array"])]
                pm += [[float(x) for x in p.spline], [v.name for v in p.array]]
            elif c["kind"] == "kMatrix":
                cm += [int(c["pterm"]), c["is_pole"] == "true", cpp_arrays.get("f_scatt"), cpp_arrays.get("IS_poles")]
                pm += [p.pterm, p.is_pole, [v.name for v in p.f_scatt], [v.name for v in p.poles]]
            elif c["kind"] == "FOCUS":
                cm.append(c["mod"])
                pm.append(p.mod)
            if cm != pm:
                raise Mismatch("C19:lineshape", f"{where}: lineshape {j}", cm, pm)
    return f17, len(camps)


# ---------------------------------------------------------------------------------------------

EXTRA_PARAMS = ("D0_radius", "mixing_x", "K*(892)bar0_mass", "rho(770)0_width", "bkg::frac", "a_b'c", "Lambda_0")


@st.composite
def c19_case(draw):
    event = draw(st.sampled_from(A.EVENT_TYPES))
    n = draw(st.integers(1, 4))
    amps = [draw(A.amplitude4(event)) for _ in range(n)]
    cs = []
    for _ in amps:
        f = draw(st.sampled_from((0, 2)))
        f2 = f if draw(st.integers(0, 3)) else draw(st.sampled_from((0, 2)))
        cs.append([str(f), draw(N.num_literal(forms=("dec", "neg", "int", "Exp"))), draw(N.num_literal(nonneg=True, forms=("dec", "tiny"))),
                   str(f2), draw(N.num_literal(forms=("dec", "neg"))), draw(N.num_literal(nonneg=True, forms=("dec", "tiny")))])
    extras = []
    for nm in draw(st.lists(st.sampled_from(EXTRA_PARAMS), max_size=5, unique=True)):
        extras.append({"k": "var", "n": nm, "flag": str(draw(st.sampled_from((0, 2, 3)))), "v": draw(N.num_literal(forms=("dec", "neg", "int", "Exp"))),
                       "e": draw(st.sampled_from(("0", "0.5", "1e-3", "0.0")))})
    return {"event": list(event), "amps": amps, "c": cs, "extras": extras, "kmatrix_family": draw(st.integers(0, 9)) > 0,
            "order": draw(st.integers(0, 5)), "py_first": draw(st.booleans()),
            # the lines of the K-matrix parameter family in file order or shuffled (the arrays are ordered by index, not by position)
            "fam_order": draw(st.one_of(st.none(), st.permutations(list(range(len(A.KMATRIX_ITEMS))))))}


def to_ast(case):
    items = [{"k": "event", "p": ["D0", *case["event"]]}]
    gs = sorted({v["name"] for a in case["amps"] for v in a["vertices"] if v["ls"] == "GSpline.EFF"})
    spl = A.spline_items(gs, None)
    lines = [{"k": "line", "t": a["tree"], "c": c} for a, c in zip(case["amps"], case["c"])]
    fam = list(A.KMATRIX_ITEMS) if (case["kmatrix_family"] or has_kmatrix(case)) else []
    if fam and case.get("fam_order"):
        fam = [fam[i] for i in case["fam_order"]]
    blocks = [spl, lines, case["extras"], fam]
    k = case["order"]
    blocks = blocks[k % 4:] + blocks[: k % 4]
    for b in blocks:
        items += b
    return {"items": items, "layout": [], "crlf": False}


def has_kmatrix(case):
    return any((v["ls"] or "").startswith("kMatrix") for a in case["amps"] for v in a["vertices"])


def check_case(case, rec):
    text = A.render(to_ast(case))
    from ..harness import workdir

    if True:
        path = workdir("c19") / "model.txt"  # the same path is converted again and again with new contents
        path.write_text(text)
        cpp, py = convert_both(str(path), py_first=bool(case.get("py_first")))
        # string-returning call == what would be printed
        if case.get("check_print", True):
            from decaylanguage.modeling.ampgen2goofit import ampgen2goofit, ampgen2goofitpy

            for fn, ret in ((ampgen2goofit, cpp), (ampgen2goofitpy, py)):
                buf = io.StringIO()
                with impl(ID, fn.__name__ + "(print)"), contextlib.redirect_stdout(buf):
                    r = fn(str(path))
                if r is not None:
                    raise Mismatch("C19:print-mode-returns", f"{fn.__name__}(ret_output=False) returned a value", None, type(r).__name__)
                if strip_volatile(buf.getvalue()) != strip_volatile(ret):
                    a, b = strip_volatile(ret).split("\n"), strip_volatile(buf.getvalue()).split("\n")
                    diff = [(x, y) for x, y in zip(a, b) if x != y][:3] or [("<length>", f"{len(a)} vs {len(b)} lines")]
                    raise Mismatch("C19:string-vs-printed", f"{fn.__name__}: returned string differs from printed text", diff[0][0], diff[0][1])
    f17, namps = compare_models(cpp, py, True, has_kmatrix(case), "generated")
    # the outputs must describe *this* input: amplitudes once each in input order, couplings and parameters as written
    rc_, _ = GR.cpp_model(cpp)
    want_names = [A.ref_str(a["tree"]) for a in case["amps"]]
    got_names = [a_["name"] for a_ in rc_["amplitudes"]]
    if got_names != want_names:
        raise Mismatch("C19:amplitudes-of-input", "amplitudes of the output are not those of the input file, once each, in input order", want_names, got_names)
    for a_, c_ in zip(rc_["amplitudes"], case["c"]):
        want_amp = A.ref_amp(c_, False)
        if not (math.isclose(a_["re"], want_amp.real, rel_tol=6e-6, abs_tol=1e-6) and math.isclose(a_["im"], want_amp.imag, rel_tol=6e-6, abs_tol=1e-6)):
            raise Mismatch("C19:coefficient-of-input", f"coefficient of {a_['name']} (printed with 6 significant digits)", [want_amp.real, want_amp.imag], [a_["re"], a_["im"]])
    by_label = {v["label"]: v for v in rc_["variables"].values()}
    for e_ in case["extras"]:
        v = by_label.get(e_["n"])
        if v is None or not near(v["value"], float(e_["v"])) or (v["error"] is None) != (int(e_["flag"]) > 0):
            raise Mismatch("C19:parameter-of-input", f"fit parameter {e_['n']!r} of the input", [float(e_["v"]), "fixed" if int(e_["flag"]) > 0 else float(e_["e"])], v)
    if f17:
        m = Mismatch("C19:undeclared-sA_0", "sA_0 is defined by the file but declared as another symbol (sA__0) while the K-matrix lineshape uses sA_0")
        f = rec.match_known(m, case)
        if f is None:
            raise m
        rec.note_known(f, case, m, text)
    free = any(c[0] == "0" or c[3] == "0" for c in case["c"])
    nonrbw = any(v["ls"] for a in case["amps"] for v in a["vertices"])
    classes = ["kmatrix" if has_kmatrix(case) else "no-kmatrix"]
    for a in case["amps"]:
        for v in a["vertices"]:
            classes.append("ls-" + (v["ls"] or "RBW").split(".")[0])
    if free:
        classes.append("free-coupling")
    if any(c[0] != c[3] for c in case["c"]):
        classes.append("mixed-fix-flags")
    if case["extras"]:
        classes.append("extra-fit-parameters")
    classes.append("python-converted-first" if case.get("py_first") else "cpp-converted-first")
    rec.case(case, len(case["amps"]) >= 2 and free and nonrbw, sorted(set(classes)), sample=lambda: {"text": text, "cpp_tail": cpp[-700:], "python_tail": py[-600:]})


def shipped_unit(rec, append_sA0):
    import decaylanguage

    root = Path(decaylanguage.__file__).resolve().parents[2]
    src = (root / "models" / "DtoKpipipi_v2.txt").read_text()
    with tempfile.TemporaryDirectory(prefix="c19s_") as td:
        path = Path(td) / "DtoKpipipi_v2.txt"
        path.write_text(src + ("\nsA_0    2    -0.15    0\n" if append_sA0 else ""))
        cpp, py = convert_both(str(path), py_first=append_sA0)
    f17, namps = compare_models(cpp, py, append_sA0, True, "shipped model" + (" + sA_0 line" if append_sA0 else ""))
    case = {"shipped": True, "append_sA0": append_sA0}
    if f17:
        m = Mismatch("C19:undeclared-sA_0", "sA_0 is defined by the file but declared as another symbol (sA__0) while the K-matrix lineshape uses sA_0")
        f = rec.match_known(m, case)
        if f is None:
            m.case = case
            raise m
        rec.note_known(f, case, m)
    rec.case(case, True, ["shipped-model" + ("+sA_0" if append_sA0 else "")], sample={"shipped_model": "models/DtoKpipipi_v2.txt", "amplitudes": namps})


CLI_TEXT = """EventType D0 K- pi+ pi+ pi-
D0_radius 2 0.0037559 0
D0{K*(892)bar0{K-,pi+},rho(770)0{pi+,pi-}}    0    0.196    0.001    0    -0.39    0.006
D0[P]{K*(892)bar0{K-,pi+},rho(770)0{pi+,pi-}}    2    1    0    2    0    0
"""


def cli_unit(rec, gen):
    from decaylanguage.modeling.ampgen2goofit import ampgen2goofit, ampgen2goofitpy

    with tempfile.TemporaryDirectory(prefix="c19c_") as td:
        path = Path(td) / "m.txt"
        path.write_text(CLI_TEXT)
        env = dict(os.environ)
        r = subprocess.run([sys.executable, "-m", "decaylanguage", "-G", gen, str(path)], capture_output=True, text=True, env=env, timeout=900)
        if r.returncode != 0:
            m = Mismatch("C19:cli-fails", f"python -m decaylanguage -G {gen}: exit {r.returncode}: {r.stderr[-400:]}")
            m.case = {"cli": gen}
            raise m
        A.install_memo()
        with impl(ID, "convert"):
            want = (ampgen2goofit if gen == "goofit" else ampgen2goofitpy)(str(path), ret_output=True)
    a, b = sorted(strip_volatile(want).split("\n")), sorted(strip_volatile(r.stdout).split("\n"))
    if a != b:
        diff = [x for x in a if x not in b][:2], [x for x in b if x not in a][:2]
        m = Mismatch("C19:cli-differs", f"-G {gen}: command-line output differs from the function's string (as multisets of lines)", diff[0], diff[1])
        m.case = {"cli": gen}
        raise m
    rec.case({"cli": gen}, True, ["cli-" + gen], sample={"cli": f"python -m decaylanguage -G {gen} <file>", "lines": len(b)})


def check_cli_case(case, rec):
    """A generated file through the command-line entry point (fresh interpreter, no memo) vs the function's string."""
    from decaylanguage.modeling.ampgen2goofit import ampgen2goofit, ampgen2goofitpy

    text = A.render(to_ast(case))
    gen = "goofit" if case.get("order", 0) % 2 == 0 else "goofitpy"
    with tempfile.TemporaryDirectory(prefix="c19g_") as td:
        path = Path(td) / "m.txt"
        path.write_text(text)
        r = subprocess.run([sys.executable, "-m", "decaylanguage", "-G", gen, str(path)], capture_output=True, text=True, env=dict(os.environ), timeout=1800)
        if r.returncode != 0:
            raise Mismatch("C19:cli-fails", f"python -m decaylanguage -G {gen}: exit {r.returncode}: {r.stderr[-400:]}")
        A.install_memo()
        with impl(ID, "convert"):
            want = (ampgen2goofit if gen == "goofit" else ampgen2goofitpy)(str(path), ret_output=True)
    a, b = sorted(strip_volatile(want).split("\n")), sorted(strip_volatile(r.stdout).split("\n"))
    if a != b:
        raise Mismatch("C19:cli-differs", f"-G {gen}: command-line output differs from the function's string (as multisets of lines)",
                       [x for x in a if x not in b][:2], [x for x in b if x not in a][:2])
    rec.case(case, len(case["amps"]) >= 2, ["cli-generated-" + gen], sample=lambda: {"cli": gen, "text": text})


def replay(case, rec):
    if case.get("via_cli"):
        check_cli_case(case, rec)
    elif case.get("shipped"):
        shipped_unit(rec, case["append_sA0"])
    elif "cli" in case:
        cli_unit(rec, case["cli"])
    else:
        check_case(case, rec)


def units(tier, seed):
    quick = tier == "quick"
    u = [{"name": "shipped", "kind": "shipped", "sA0": False}, {"name": "shipped+sA_0", "kind": "shipped", "sA0": True},
         {"name": "cli-goofit", "kind": "cli", "gen": "goofit"}, {"name": "cli-goofitpy", "kind": "cli", "gen": "goofitpy"}]
    u += [{"name": f"hyp{k:02d}", "kind": "hyp", "n": 20 if quick else 500} for k in range(12 if quick else 10)]
    if not quick:
        u += [{"name": f"cli-gen{k}", "kind": "cli-gen", "n": 6} for k in range(2)]
    return u


def run_unit(unit, seed, rec, tier):
    if unit["kind"] == "shipped":
        shipped_unit(rec, unit["sA0"])
    elif unit["kind"] == "cli":
        cli_unit(rec, unit["gen"])
    elif unit["kind"] == "cli-gen":
        hyp_run(rec, c19_case().map(lambda c: dict(c, via_cli=True)), check_cli_case, unit["n"], seed, render=lambda c: A.render(to_ast(c)), shrink_budget_s=120)
    else:
        hyp_run(rec, c19_case(), check_case, unit["n"], seed, render=lambda c: A.render(to_ast(c)))

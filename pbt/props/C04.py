"""C04 -- charge conjugation is a PDG-consistent involution at every layer.

Exhaustive over the installed EvtGen (806) and PDG (1014) name tables against a reference built
from the particle package's ID tables only; Hypothesis for final states / decay modes / CDecay.
"""
from __future__ import annotations

from collections import Counter

from hypothesis import strategies as st

from .. import names as N
from ..harness import Mismatch, hyp_run, impl
from ..snapshot import make_parser

ID = "C04"
LEVEL = "exploration"
RULE = (
    "Exhaustive: every name of the installed EvtGen name table and of the PDG name table (expected conjugate from "
    "particle's EvtGenName<->PDGID bi-map and self-conjugacy flag; involution; unknown names wrapped unaltered). "
    "Hypothesis: final states of 1-8 distinct names with multiplicities 1-5 over both tables plus arbitrary unknown labels, "
    "decay modes with bf, model info and JSON-like metadata, both naming schemes, and the same decay written as "
    "Decay+CDecay through DecFileParser. Non-trivial (generated part): a multiplicity >=2 and >=1 name that changes "
    "under conjugation; enumerated names are distinct by construction and count as non-trivial when they have a "
    "known conjugate different from themselves."
)
ASSUMPTIONS = [
    "particle package tables (EvtGenName2PDGIDBiMap, PDG2EvtGenNameMap, EvtGen2PDGNameMap, Particle.is_self_conjugate) are the trusted reference",
]


def ref_pdg_conj(name):
    from particle.converters import EvtGen2PDGNameMap, PDG2EvtGenNameMap

    try:
        evt = PDG2EvtGenNameMap[name]
    except Exception:
        return f"ChargeConj({name})"
    cc = N.ref_conj(evt)
    if cc.startswith("ChargeConj(") and cc == f"ChargeConj({evt})":
        return f"ChargeConj({name})"
    try:
        return EvtGen2PDGNameMap[cc]
    except Exception:
        return f"ChargeConj({name})"


def check_evtgen_name(n):
    from decaylanguage.utils.particleutils import charge_conjugate_name

    want = N.ref_conj(n)
    with impl(ID, "charge_conjugate_name"):
        got = charge_conjugate_name(n)
    if got != want:
        raise Mismatch("C04:evtgen-name", f"conjugate of {n!r}", want, got)
    if not want.startswith("ChargeConj("):
        with impl(ID, "charge_conjugate_name"):
            back = charge_conjugate_name(got)
        if back != n:
            raise Mismatch("C04:involution", f"cc(cc({n!r}))", n, back)
    return want != n and not want.startswith("ChargeConj(")


def check_pdg_name(n):
    from decaylanguage.utils.particleutils import charge_conjugate_name

    want = ref_pdg_conj(n)
    with impl(ID, "charge_conjugate_name(pdg)"):
        got = charge_conjugate_name(n, pdg_name=True)
    if got != want:
        raise Mismatch("C04:pdg-name", f"PDG-name conjugate of {n!r}", want, got)
    if not want.startswith("ChargeConj("):
        with impl(ID, "charge_conjugate_name(pdg)"):
            back = charge_conjugate_name(got, pdg_name=True)
        if back != n:
            raise Mismatch("C04:involution-pdg", f"cc(cc({n!r})) with PDG names", n, back)
    return want != n and not want.startswith("ChargeConj(")


# ---------------------------------------------------------------------------------------------

json_leaf = st.one_of(st.none(), st.booleans(), st.integers(-5, 5), st.floats(-2, 2, allow_nan=False), st.text("abc xyz", max_size=5))
json_val = st.recursive(json_leaf, lambda c: st.one_of(st.lists(c, max_size=3), st.dictionaries(st.text("abc", min_size=1, max_size=3), c, max_size=3)), max_leaves=6)
meta_key = st.sampled_from(("model", "model_params", "study", "year", "zfit", "note", "tag_1", "x"))


@st.composite
def fs_case(draw):
    pdg = draw(st.integers(0, 3)) == 0
    table = N.pdg_names() if pdg else N.evtgen_names()
    k = draw(st.sampled_from((0,) + tuple(range(1, 9)) * 3))  # now and then an empty final state
    names = []
    for _ in range(k):
        c = draw(st.integers(0, 9))
        if pdg and c == 6:
            names.append(draw(st.sampled_from(N.evtgen_names())))  # an EvtGen spelling under the PDG naming: unknown unless also a PDG name
        elif c <= 6:
            names.append(draw(st.sampled_from(table)))
        elif c == 7:
            names.append(draw(st.one_of(N.synthetic_label(max_size=7), st.sampled_from(("ChargeConj(Xq)", "ChargeConj(ChargeConj(Xq))", "ChargeConj(K+)", "ChargeConj()")))))
        elif c == 8:
            names.append(draw(st.text(alphabet="abcXYZ019+-*'()_~", min_size=1, max_size=6)))
        else:
            # labels that differ from a particle name only by white space, or contain some, are unknown labels like any other
            # (they can only be given in a list or a mapping: the string form splits at white space)
            base = draw(st.sampled_from(table))
            cand = draw(st.sampled_from((" " + base, base + " ", base + "\n", "\t" + base, "my particle", base + " " + base, " ",
                                         base.lower(), base.upper(), base.swapcase(), base.lower(), base.upper())))
            # a name of the table in another letter case is an unknown label too (unless that spelling is itself in the table)
            names.append(cand)
    # particle/antiparticle pairs in the same final state (with unequal counts) are a class of
    # their own: the name set is then closed under conjugation while the multiset is not
    ref = ref_pdg_conj if pdg else N.ref_conj
    for n in list(names):
        if draw(st.integers(0, 9)) < 4:
            c = ref(n)
            if c != n and not c.startswith("ChargeConj("):
                names.append(c)
    names = list(dict.fromkeys(names))
    mult = [draw(st.sampled_from((1, 1, 1, 2, 2, 3, 4, 5))) for _ in names]
    meta = draw(st.dictionaries(meta_key, json_val, max_size=4))
    bf = draw(st.floats(0, 1, allow_nan=False))
    how = draw(st.sampled_from(("dict", "list", "string")))
    if any(len(n.split()) != 1 or n.split()[0] != n for n in names):
        how = draw(st.sampled_from(("dict", "list")))
    return {"pdg": pdg, "names": names, "mult": mult, "meta": meta, "bf": bf, "how": how}


def check_fs(case, rec):
    from decaylanguage import DaughtersDict, DecayMode

    pdg = case["pdg"]
    ref = ref_pdg_conj if pdg else N.ref_conj
    src = Counter(dict(zip(case["names"], case["mult"])))
    want = Counter()
    for n, m in src.items():
        want[ref(n)] += m
    with impl(ID, "DaughtersDict"):
        if case["how"] == "dict":
            dd = DaughtersDict(dict(src))
        elif case["how"] == "list":
            dd = DaughtersDict(sorted(src.elements()))
        else:
            dd = DaughtersDict(" ".join(src.elements()))
        cc = dd.charge_conjugate(pdg_name=pdg) if pdg else dd.charge_conjugate()
        got = Counter(dict(cc.items()))
        ln = len(cc)
    if got != want:
        raise Mismatch("C04:final-state", f"conjugate of {dict(src)} (pdg_name={pdg})", dict(want), dict(got))
    if ln != sum(src.values()):
        raise Mismatch("C04:particle-count", "", sum(src.values()), ln)
    # conjugating twice: the original for names with a known conjugate, a doubly wrapped name otherwise
    want2 = Counter()
    for n, m in want.items():
        want2[ref(n)] += m
    with impl(ID, "DaughtersDict twice"):
        cc2 = cc.charge_conjugate(pdg_name=pdg) if pdg else cc.charge_conjugate()
    if Counter(dict(cc2.items())) != want2:
        raise Mismatch("C04:final-state-twice", f"conjugate of the conjugate of {dict(src)} (pdg_name={pdg})", dict(want2), dict(cc2.items()))
    if dict(dd.items()) != dict(src):
        raise Mismatch("C04:input-mutated", "final state changed by charge_conjugate()", dict(src), dict(dd.items()))
    # decay mode
    meta = case["meta"]
    with impl(ID, "DecayMode.charge_conjugate"):
        dm = DecayMode(case["bf"], dict(src), **meta)
        before = dm.to_dict()
        dmc = dm.charge_conjugate(pdg_name=pdg) if pdg else dm.charge_conjugate()
        got_d = Counter(dict(dmc.daughters.items()))
        got_meta = dict(dmc.metadata)
        got_bf = dmc.bf
        after = dm.to_dict()
    if got_d != want:
        raise Mismatch("C04:mode-daughters", f"{dict(src)}", dict(want), dict(got_d))
    if got_bf != case["bf"] or type(got_bf) is not type(case["bf"]):
        raise Mismatch("C04:mode-bf", "", case["bf"], got_bf)
    exp_meta = {"model": "", "model_params": ""}
    exp_meta.update(meta)
    if got_meta != exp_meta:
        raise Mismatch("C04:mode-metadata", "metadata not preserved", exp_meta, got_meta)
    if before != after:
        raise Mismatch("C04:input-mutated", "decay mode changed by charge_conjugate()", before, after)
    nt = max(case["mult"] or [0]) >= 2 and any(ref(n) != n for n in src)
    rec.case(case, nt, ["pdg-names" if pdg else "evtgen-names", "how-" + case["how"],
                        "has-unknown" if any(ref(n).startswith("ChargeConj(") for n in src) else "all-known",
                        "meta-nonempty" if meta else "meta-empty",
                        "has-conjugate-pair" if any(ref(n) != n and ref(n) in src for n in src) else "no-conjugate-pair",
                        "closed-name-set-unequal-counts" if (all(ref(n) in src for n in src) and any(src[ref(n)] != src[n] for n in src)) else "other"],
             sample=lambda: {"final_state": dict(src), "pdg_name": pdg, "conjugate": dict(want), "metadata": meta})


@st.composite
def cdecay_case(draw):
    selfc, paired, unknown = N.evtgen_classes()
    mother = draw(st.sampled_from(paired))
    k = draw(st.integers(1, 6))
    ds = []
    for _ in range(k):
        c = draw(st.integers(0, 9))
        if c <= 5:
            ds.append(draw(st.sampled_from(paired)))
        elif c <= 7:
            ds.append(draw(st.sampled_from(selfc)))
        elif c == 8 and unknown:
            ds.append(draw(st.sampled_from(unknown)))
        else:
            ds.append(draw(N.synthetic_label(max_size=6)))
    reps = draw(st.integers(0, 3))
    for _ in range(reps):
        ds.append(draw(st.sampled_from(ds)))
    # alias names that are paired by a ChargeConj statement in some files and left unpaired in others
    cc = []
    for a, b in (("MyA+", "MyA-"), ("Myq", "anti-Myq")):
        k = draw(st.sampled_from((0, 0, 1, 2, 3)))
        if k:
            ds.append(draw(st.sampled_from((a, b))))
            if k == 2:
                cc.append([a, b])
            elif k == 3:
                cc.append([b, a])
    # Alias statements (of self-conjugate and other particles) do not make a name's conjugate known
    al = []
    for nm in ("MyJ/psi", "MyK_S0", "Mypi+"):
        if draw(st.sampled_from((False, False, True))):
            ds.append(nm)
            al.append([nm, {"MyJ/psi": "J/psi", "MyK_S0": "K_S0", "Mypi+": "pi+"}[nm]])
    return {"mother": mother, "d": ds, "cc": cc, "alias": al}


def check_cdecay(case, rec):
    from decaylanguage import DaughtersDict

    m, ds = case["mother"], case["d"]
    mb = N.ref_conj(m)
    ccd = {a: b for a, b in case.get("cc", [])}
    text = "".join(f"Alias {a} {b}\n" for a, b in case.get("alias", [])) + "".join(f"ChargeConj {a} {b}\n" for a, b in case.get("cc", [])) + f"Decay {m}\n1.0 {' '.join(ds)} PHSP;\nEnddecay\nCDecay {mb}\n"
    p = make_parser(text, ID)
    with impl(ID, "list_decay_modes"):
        modes = p.list_decay_modes(mb)
    with impl(ID, "DaughtersDict.charge_conjugate"):
        cls_layer = Counter(dict(DaughtersDict(ds).charge_conjugate().items()))
    from ..decref import conj_name
    want = Counter(conj_name(d, ccd) for d in ds)
    if len(modes) != 1 or Counter(modes[0]) != want:
        raise Mismatch("C04:cdecay-table", f"CDecay {mb} of {m} -> {ds} (ChargeConj statements: {case.get('cc', [])})", dict(want), modes)
    governed = set(ccd) | set(ccd.values())
    if not (governed & set(ds)) and cls_layer != Counter(modes[0]):
        raise Mismatch("C04:layers-disagree", f"{m} -> {ds}", dict(cls_layer), modes[0])
    nt = len(set(ds)) < len(ds) and any(N.ref_conj(d) != d for d in ds)
    rec.case(case, nt, ["cdecay-cross-layer"], sample=lambda: {"text": text, "conjugate_table": modes})


def replay(case, rec):
    if "mother" in case:
        check_cdecay(case, rec)
    elif "name" in case:
        (check_pdg_name if case.get("pdg") else check_evtgen_name)(case["name"])
        rec.case(case, True)
    else:
        check_fs(case, rec)


def units(tier, seed):
    n = 800 if tier == "quick" else 15000
    u = [{"name": "enum-evtgen", "kind": "enum"}, {"name": "enum-pdg", "kind": "enum"}]
    u += [{"name": f"hyp-fs{k:02d}", "kind": "fs", "n": n} for k in range(10)]
    u += [{"name": f"hyp-cdecay{k:02d}", "kind": "cdecay", "n": max(60, n // 4)} for k in range(4)]
    return u


def run_unit(unit, seed, rec, tier):
    if unit["name"] == "enum-evtgen":
        nt = 0
        for n in N.evtgen_names():
            try:
                nt += bool(check_evtgen_name(n))
            except Mismatch as m:
                m.case = {"name": n, "pdg": False}
                raise
        rec.bulk(len(N.evtgen_names()), nt, {"evtgen-name": len(N.evtgen_names())})
        rec.exhaustive.append(f"all {len(N.evtgen_names())} EvtGen names")
        rec.samples.append({"exhaustive": "EvtGen names", "examples": {n: N.ref_conj(n) for n in N.evtgen_names()[40:44]}})
    elif unit["name"] == "enum-pdg":
        nt = 0
        for n in N.pdg_names():
            try:
                nt += bool(check_pdg_name(n))
            except Mismatch as m:
                m.case = {"name": n, "pdg": True}
                raise
        rec.bulk(len(N.pdg_names()), nt, {"pdg-name": len(N.pdg_names())})
        rec.exhaustive.append(f"all {len(N.pdg_names())} PDG names")
    elif unit["kind"] == "fs":
        hyp_run(rec, fs_case(), check_fs, unit["n"], seed)
    else:
        hyp_run(rec, cdecay_case(), check_cdecay, unit["n"], seed)

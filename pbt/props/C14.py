"""C14 -- descriptor format settings are scoped and validated.

Exhaustive enumeration of short histories against a stack model + a Hypothesis rule-based machine
for long histories over a generated pattern language."""
from __future__ import annotations

from hypothesis import strategies as st
from hypothesis.stateful import RuleBasedStateMachine, precondition, rule

from ..harness import Mismatch, run_machine

ID = "C14"
LEVEL = "exploration"
RULE = (
    "Exhaustive: all histories up to length L (quick 6, thorough 7) over {create context object 1|2 with valid pair A, valid "
    "pair B or an invalid pair; enter object k (re-entry while entered allowed); leave the innermost normally / by an Exception / by a BaseException that is not an Exception; "
    "set_config(valid C); set_config(invalid); render}, entries LIFO as `with` allows, checked after the last step of every "
    "history (every prefix is a history of its own) against a stack model: DescriptorFormat.config == model and a fixed "
    "3-level chain renders as the reference predicts. Hypothesis RuleBasedStateMachine: histories up to 40 steps, 3 objects, "
    "leaving a context that is not the innermost one (non-LIFO), patterns from a generated language (literals incl. doubled braces, the two placeholders with conversions/format specs, "
    "other names, empty/positional/attribute/index fields, a field nested in a format spec); valid <=> the set of replacement "
    "fields incl. nested ones is exactly {mother, daughters}. Non-trivial: a history entering an object created >=1 "
    "state-changing step earlier, or nesting depth >=2, or an exceptional leave."
)
ASSUMPTIONS = ["Python's str.format is the reference renderer for a pattern", "an invalid pair may be rejected at construction or at entry (both leave the format unchanged)"]

DEFAULT = ("{mother} -> {daughters}", "({mother} -> {daughters})")
PAIRS = {
    "A": ("{mother} --> {daughters}", "[{mother} --> {daughters}]"),
    "B": ("{mother} => {daughters}", "{mother} (=> {daughters})"),
    "C": ("{mother} to {daughters}", "<{mother} to {daughters}>"),
    "INV": ("{mother} -> {daus}", "({mother} -> {daughters})"),
    "INV2": ("{mother} -> {daughters}", "({mother} -> {daughters} {x})"),
}
VALID = {"A", "B", "C"}


def reset():
    from decaylanguage.utils import DescriptorFormat

    DescriptorFormat.config = {"decay_pattern": DEFAULT[0], "sub_decay_pattern": DEFAULT[1]}


_CHAIN = None


def chain():
    global _CHAIN
    if _CHAIN is None:
        from decaylanguage import DecayChain, DecayMode

        _CHAIN = DecayChain("D*+", {"D*+": DecayMode(0.677, "D0 pi+"), "D0": DecayMode(0.0124, "K_S0 pi0"), "K_S0": DecayMode(0.692, "pi+ pi-")})
    return _CHAIN


def ref_render(pair):
    top, sub = pair
    ks = sub.format(mother="K_S0", daughters="pi+ pi-")
    d0 = sub.format(mother="D0", daughters=" ".join(sorted([ks, "pi0"])))
    return top.format(mother="D*+", daughters=" ".join(sorted([d0, "pi+"])))


class Boom(Exception):
    pass


class BaseBoom(BaseException):
    """Leaving a block through something like KeyboardInterrupt / GeneratorExit: not an Exception subclass."""


# how a block is left by exception: the value of the second field of a "leave" operation -> exception class
EXC_TYPES = {True: Boom, 2: BaseBoom, "ValueError": ValueError, "KeyError": KeyError, "StopIteration": StopIteration,
             "GeneratorExit": GeneratorExit, "RuntimeError": RuntimeError}


class Runner:
    """Drives the implementation and the stack model side by side."""

    def __init__(self):
        reset()
        self.current = DEFAULT
        self.stack = []          # (implementation object, saved pair)
        self.objs = {}           # k -> (implementation object or None, pair, valid)
        self.changed_at = []     # step indices at which the format in force changed
        self.created_at = {}
        self.n = 0
        self.flags = set()

    def fail(self, kind, detail, exp=None, obs=None):
        raise Mismatch(f"C14:{kind}", detail, exp, obs)

    def step(self, op):
        from decaylanguage.utils import DescriptorFormat

        self.n += 1
        name = op[0]
        if name == "create":
            _, k, pair, valid = op
            try:
                obj = DescriptorFormat(pair[0], pair[1])
            except ValueError:
                if valid is True:
                    self.fail("valid-rejected", f"constructor rejected valid patterns {pair}")
                obj = None
            except Exception as e:  # noqa: BLE001
                self.fail("exception", f"constructor raised {type(e).__name__}: {e}")
            self.objs[k] = (obj, pair, valid)
            self.created_at[k] = len(self.changed_at)
        elif name == "enter":
            obj, pair, valid = self.objs[op[1]]
            if obj is None:
                return
            try:
                obj.__enter__()
            except ValueError:
                if valid is True:
                    self.fail("valid-rejected", f"entering a context with valid patterns {pair} raised ValueError")
            except Exception as e:  # noqa: BLE001
                self.fail("exception", f"__enter__ raised {type(e).__name__}: {e}")
            else:
                if valid is False:
                    self.fail("invalid-accepted", f"context with invalid patterns {pair} was entered", "ValueError", "entered")
                if len(self.changed_at) > self.created_at[op[1]]:
                    self.flags.add("enter-after-change")
                self.stack.append((obj, self.current))
                if len(self.stack) >= 2:
                    self.flags.add("nested")
                if pair != self.current:
                    self.changed_at.append(self.n)
                self.current = pair
        elif name == "leave":
            obj, saved = self.stack.pop()
            try:
                if op[1]:
                    exc_type = EXC_TYPES.get(op[1], Boom)
                    try:
                        raise exc_type("leave by exception")
                    except tuple(EXC_TYPES.values()) as e:
                        obj.__exit__(exc_type, e, e.__traceback__)
                    self.flags.add("exceptional-leave")
                else:
                    obj.__exit__(None, None, None)
            except Exception as e:  # noqa: BLE001
                self.fail("exception", f"__exit__ raised {type(e).__name__}: {e}")
            if saved != self.current:
                self.changed_at.append(self.n)
            self.current = saved
        elif name == "leave_k":
            # leave the most recent entry of object k although it is not the innermost one (generators, ExitStack,
            # explicit __enter__/__exit__): that context restores the format in force when *it* was entered
            idx = max(i for i, (o, _) in enumerate(self.stack) if o is self.objs[op[1]][0])
            obj, saved = self.stack.pop(idx)
            try:
                obj.__exit__(None, None, None)
            except Exception as e:  # noqa: BLE001
                self.fail("exception", f"__exit__ raised {type(e).__name__}: {e}")
            if saved != self.current:
                self.changed_at.append(self.n)
            self.current = saved
            self.flags.add("non-lifo-leave")
        elif name == "set":
            _, pair, valid = op
            try:
                DescriptorFormat.set_config(pair[0], pair[1])
            except ValueError:
                if valid is True:
                    self.fail("valid-rejected", f"set_config rejected valid patterns {pair}")
            except Exception as e:  # noqa: BLE001
                self.fail("exception", f"set_config raised {type(e).__name__}: {e}")
            else:
                if valid is False:
                    self.fail("invalid-accepted", f"set_config accepted invalid patterns {pair}", "ValueError", "accepted")
                if pair != self.current:
                    self.changed_at.append(self.n)
                self.current = pair
        elif name == "render":
            pass

    def check(self, render=True):
        from decaylanguage.utils import DescriptorFormat

        cfg = DescriptorFormat.config
        got = (cfg.get("decay_pattern"), cfg.get("sub_decay_pattern"))
        if got != tuple(self.current) or set(cfg) != {"decay_pattern", "sub_decay_pattern"}:
            self.fail("config", "format in force differs from the stack model", list(self.current), list(got))
        if render and not any(x in p for p in self.current for x in (":d}", "!x}", "!q}", ":=+9.2f}")):
            try:
                s = chain().to_string()
            except Exception as e:  # noqa: BLE001
                self.fail("exception", f"to_string raised {type(e).__name__}: {e} under {self.current}")
            want = ref_render(self.current)
            if s != want:
                self.fail("render", f"rendering under {self.current}", want, s)


def encode(op):
    return list(op) if op[0] != "create" and op[0] != "set" else [op[0], *[list(x) if isinstance(x, tuple) else x for x in op[1:]]]


def run_history(ops, render=True):
    r = Runner()
    for op in ops:
        r.step(op)
    r.check(render)
    return r


def options(model):
    """Applicable operations in a model state (objs: k -> validity/pair name, depth)."""
    objs, depth = model
    out = []
    ks = [1] if 1 not in objs else [1, 2]
    for k in ks:
        for p in ("A", "B", "INV"):
            out.append(("create", k, PAIRS[p], p in VALID))
    for k in objs:
        out.append(("enter", k))
    if depth > 0:
        out.append(("leave", False))
        out.append(("leave", True))
        out.append(("leave", 2))
        out.append(("leave", "ValueError"))  # what a refused pattern raises, propagating out of the block
    out.append(("set", PAIRS["C"], True))
    out.append(("set", PAIRS["INV2"], False))
    out.append(("render",))
    return out


def advance(model, op):
    objs, depth = model
    if op[0] == "create":
        objs = dict(objs)
        objs[op[1]] = op[3]
    elif op[0] == "enter" and objs[op[1]]:
        depth += 1
    elif op[0] == "leave":
        depth -= 1
    return (objs, depth)


def enumerate_histories(maxlen, shard, nshards, rec):
    count = nt = 0
    first_level = []
    m0 = ({}, 0)
    for a in options(m0):
        m1 = advance(m0, a)
        for b in options(m1):
            first_level.append(((a, b), advance(m1, b)))
    # the length-1 histories go to shard 0
    if shard == 0:
        for a in options(m0):
            r = run_history([a])
            count += 1
    for idx, (prefix, model) in enumerate(first_level):
        if idx % nshards != shard:
            continue
        stack = [(list(prefix), model)]
        while stack:
            ops, model = stack.pop()
            try:
                r = run_history(ops, render=(ops[-1][0] in ("render", "leave", "enter", "set")))
            except Mismatch as m:
                m.case = {"history": [encode(o) for o in ops]}
                raise
            count += 1
            if r.flags:
                nt += 1
                if len(rec.samples) < 2 and len(ops) >= 5:
                    rec.samples.append({"history": [encode(o) for o in ops], "format_in_force": list(r.current)})
            if len(ops) < maxlen:
                for o in options(model):
                    stack.append((ops + [o], advance(model, o)))
    rec.bulk(count, nt, {f"enum-len<={maxlen}": count})


# ---------------------------------------------------------------------------------------------
# generated pattern language + long histories
# ---------------------------------------------------------------------------------------------

SPECS = ("", "", ">12", "<8", "^20", "s", ".40")
CONVS = (None, None, "s", "r", "a")
OTHER_FIELDS = ("", "0", "x", "mothers", "Mother", "mother.real", "mother[0]", "daughter", "daughters.x", "1",
                " mother ", "mother ", " daughters", "daughters\t", "MOTHER")


@st.composite
def pattern(draw, sub=False):
    """-> (text, valid).  Built from parts, so validity is known by construction."""
    parts = []
    fields = set()
    nfields = []
    bad = False

    def field(name):
        conv = draw(st.sampled_from(CONVS))
        spec = draw(st.sampled_from(SPECS))
        txt = "{" + name + (("!" + conv) if conv else "") + ((":" + spec) if spec else "") + "}"
        return txt

    kind = draw(st.integers(0, 9))
    if kind == 8 and draw(st.booleans()):
        # both placeholders, no other field, but a conversion / format spec that cannot be applied to a string: the statement
        # only speaks about placeholders, so such a pattern may be accepted -- or rejected, then without any effect
        return draw(st.sampled_from(("{mother:d} -> {daughters}", "{mother} -> {daughters!x}", "({mother!q} -> {daughters})", "{mother:=+9.2f} {daughters}"))), "either"
    if kind == 9 and draw(st.booleans()):
        # malformed replacement fields: rejected like any other invalid pattern
        return draw(st.sampled_from(("{mother -> {daughters}", "{mother} -> daughters}", "{mother} -> {daughters", "{mother} } {daughters}",
                                     "{mother:{} {daughters}", "{ mother } -> {daughters}", "{mother} -> {daughters }", "{mother } {daughters}"))), False
    order = draw(st.permutations(["mother", "daughters"]))
    lits = [draw(st.sampled_from(("", " ", " -> ", " => ", " (", ")", "[", "]", "{{", "}}", " {{x}} ", "|", " to "))) for _ in range(4)]
    text = lits[0]
    use = list(order)
    if kind == 0:
        use = use[:1]                      # lacks a placeholder
    elif kind == 1:
        use = use + [draw(st.sampled_from(OTHER_FIELDS))]   # an extra, different field
    elif kind == 2:
        use = use + [draw(st.sampled_from(use))]            # a placeholder twice: still valid
    for i, nm in enumerate(use):
        if kind == 3 and i == 0:
            inner = draw(st.sampled_from(("x", "width", "daughters", "mother", "")))
            text += "{" + nm + ":{" + inner + "}}"            # field nested in a format spec
            nfields.append(inner)
        else:
            text += field(nm)
        nfields.append(nm)
        text += lits[min(i + 1, 3)]
    valid = set(nfields) == {"mother", "daughters"}
    if kind == 3 and valid:
        # nested placeholder names are the two allowed ones: syntactically accepted, but the inner value is
        # not a legal format spec for a string -> rendering is outside C14; keep such patterns out
        valid = None
    return text, valid


@st.composite
def pattern_pair(draw):
    a, va = draw(pattern())
    b, vb = draw(pattern(sub=True))
    if va is None or vb is None:
        valid = None
    elif va is False or vb is False:
        valid = False
    elif va == "either" or vb == "either":
        valid = "either"
    else:
        valid = True
    return (a, b), valid


def make_machine(rec):
    class Machine(RuleBasedStateMachine):
        def __init__(self):
            super().__init__()
            self.r = Runner()
            self.ops = []

        def do(self, op):
            self.ops.append(op)
            try:
                self.r.step(op)
                renderable = all("{{" not in p and "}}" not in p or True for p in self.r.current)
                self.r.check(render=renderable)
            except Mismatch as m:
                case = {"history": [encode(o) for o in self.ops]}
                f = rec.match_known(m, case)
                if f is not None:
                    rec.note_known(f, case, m)
                    self.r.current = tuple(self.r.current)
                    return
                rec.fail(m, case, repr(case["history"]))
                raise

        @rule(k=st.integers(1, 3), pp=pattern_pair())
        def create(self, k, pp):
            pair, valid = pp
            if valid is None:
                return
            self.do(("create", k, pair, valid))

        @precondition(lambda self: bool(self.r.objs))
        @rule(data=st.data())
        def enter(self, data):
            k = data.draw(st.sampled_from(sorted(self.r.objs)))
            self.do(("enter", k))

        @precondition(lambda self: bool(self.r.stack))
        @rule(exc=st.sampled_from((False, False, True, 2, "ValueError", "KeyError", "StopIteration", "GeneratorExit", "RuntimeError")))
        def leave(self, exc):
            self.do(("leave", exc))

        @rule(pp=pattern_pair())
        def set_config(self, pp):
            pair, valid = pp
            if valid is None:
                return
            self.do(("set", pair, valid))

        @precondition(lambda self: len(self.r.stack) >= 2)
        @rule(data=st.data())
        def leave_not_innermost(self, data):
            entered = {k for k, (o, _, _) in self.r.objs.items() if o is not None and any(o is so for so, _ in self.r.stack[:-1])}
            entered -= {k for k, (o, _, _) in self.r.objs.items() if o is self.r.stack[-1][0]}
            if not entered:
                return
            self.do(("leave_k", data.draw(st.sampled_from(sorted(entered)))))

        @rule()
        def render(self):
            self.do(("render",))

        def teardown(self):
            classes = ["len-%d" % (10 * (len(self.ops) // 10))] + sorted(self.r.flags)
            if any(o[0] in ("create", "set") and o[-1] is False for o in self.ops):
                classes.append("invalid-pattern-used")
            rec.case({"history": [encode(o) for o in self.ops]}, bool(self.r.flags), classes,
                     sample=lambda: {"history": [encode(o) for o in self.ops][:12], "format_in_force": list(self.r.current)})
            reset()

    return Machine


def decode(o):
    if o[0] == "create":
        return ("create", o[1], tuple(o[2]), o[3])
    if o[0] == "set":
        return ("set", tuple(o[1]), o[2])
    return tuple(o)


def replay(case, rec):
    r = Runner()
    for o in case["history"]:
        r.step(decode(o))
        r.check()
    rec.case(case, bool(r.flags))
    reset()


def units(tier, seed):
    quick = tier == "quick"
    L = 6 if quick else 7
    u = [{"name": f"enum{k:02d}", "kind": "enum", "maxlen": L, "shard": k, "of": 12} for k in range(12)]
    u += [{"name": f"machine{k}", "kind": "machine", "n": 150 if quick else 2500} for k in range(4)]
    return u


def run_unit(unit, seed, rec, tier):
    if unit["kind"] == "enum":
        enumerate_histories(unit["maxlen"], unit["shard"], unit["of"], rec)
        rec.exhaustive.append(f"all histories up to length {unit['maxlen']} over the 14-operation alphabet")
        reset()
    else:
        run_machine(rec, make_machine(rec), unit["n"], 40, seed)

"""C03 -- CDecay yields the exact charge conjugate of the referenced decay table."""
from __future__ import annotations

import warnings

from hypothesis import strategies as st

from .. import decgen as G
from .. import decref as R
from .. import names as N
from ..harness import Mismatch, hyp_run, impl
from ..snapshot import compare_tables, make_parser

ID = "C03"
LEVEL = "exploration"
RULE = (
    "Hypothesis draws files with 2-6 Decay blocks over real non-self-conjugate mothers and aliased mothers (Alias MyX X / "
    "Alias MyXbar Xbar with ChargeConj in either orientation; also an alias paired with a standard name), 0-3 CopyDecay, 1-4 CDecay (each name at most once; subjects "
    "with a conjugate source table, without one, or shadowed by their own Decay block; sources that are copies), statements "
    "in any order, daughters from paired/self-conjugate/unknown real names, aliases with and without ChargeConj and unknown "
    "labels; both values of include_ccdecays. Oracle: reference interpreter (ChargeConj direct, then reverse, then PDG-ID "
    "negation from the particle tables, else ChargeConj(name)); every table, line and field compared, source tables "
    "included. ChargeConj webs are clean pairings, CDecay sources are never real self-conjugate particles (DESIGN 6.3-6.5). "
    "Non-trivial: >=1 CDecay-created table with a line of >=2 daughters of which >=1 changes under conjugation."
)
ASSUMPTIONS = ["particle tables are the reference for conjugate names", "reference interpreter pbt/decref.py"]


@st.composite
def c03_file(draw):
    selfc, paired, unknown = N.evtgen_classes()
    stmts = []
    # particles of this file: real pairs and aliased pairs
    n_real = draw(st.integers(1, 3))
    reals = draw(st.lists(st.sampled_from(paired), min_size=n_real, max_size=n_real, unique=True))
    reals = [r for r in reals if N.ref_conj(r) not in reals[: reals.index(r)]]
    alias_pairs = []
    for i in range(draw(st.integers(0, 3))):
        base = draw(st.sampled_from(paired))
        a, b = f"My{i}{'p'}_{i}", f"My{i}{'m'}_{i}"
        style = draw(st.integers(0, 2))
        if style == 0:
            a, b = "My" + str(i) + "X+", "My" + str(i) + "X-"
        elif style == 1:
            a, b = f"sig{i}_D0", f"anti-sig{i}_D0"
        stmts.append({"k": "alias", "a": a, "p": base})
        stmts.append({"k": "alias", "a": b, "p": N.ref_conj(base)})
        orient = draw(st.integers(0, 2))
        if orient == 0:
            stmts.append({"k": "chargeconj", "a": a, "b": b})
        elif orient == 1:
            stmts.append({"k": "chargeconj", "a": b, "b": a})
        # orient == 2: alias pair without ChargeConj -> conjugates are unknown, marked as such
        alias_pairs.append((a, b, orient != 2))
    # an alias paired with a *standard* name: `Alias MyK+ K+` / `ChargeConj MyK+ K-` (either orientation); the statement
    # then also governs the conjugate of the standard name K- (read in the other direction)
    used_real = set(reals) | {N.ref_conj(r) for r in reals}
    for i in range(draw(st.sampled_from((0, 0, 1, 2)))):
        base = draw(st.sampled_from(paired))
        cb = N.ref_conj(base)
        if base in used_real or cb in used_real:
            continue
        used_real |= {base, cb}
        a = f"Mix{i}_{'x'}+"
        stmts.append({"k": "alias", "a": a, "p": base})
        stmts.append({"k": "chargeconj", "a": a, "b": cb} if draw(st.booleans()) else {"k": "chargeconj", "a": cb, "b": a})
        alias_pairs.append((a, cb, True))
    lonely = []
    for i in range(draw(st.integers(0, 2))):
        nm = f"Lone{i}~x"
        stmts.append({"k": "alias", "a": nm, "p": draw(st.sampled_from(selfc + paired))})
        if draw(st.booleans()):
            stmts.append({"k": "chargeconj", "a": nm, "b": nm})  # declared self-conjugate alias
        lonely.append(nm)
    # candidate mothers (name, conjugate-or-None)
    cand = [(r, N.ref_conj(r)) for r in reals] + [(N.ref_conj(r), r) for r in reals]
    for a, b, linked in alias_pairs:
        if linked:
            cand += [(a, b), (b, a)]
    daughters_pool = list(dict.fromkeys(
        [draw(st.sampled_from(paired)) for _ in range(3)] + [draw(st.sampled_from(selfc)) for _ in range(2)]
        + ([draw(st.sampled_from(unknown))] if unknown else []) + [x for a, b, _ in alias_pairs for x in (a, b)] + lonely
        + [draw(N.synthetic_label(max_size=6)) for _ in range(2)] + [c[0] for c in cand[:2]]))
    if not cand:
        cand = [("B+", "B-"), ("B-", "B+")]
    nb = draw(st.integers(1, min(6, len(cand))))
    idx = draw(st.lists(st.integers(0, len(cand) - 1), min_size=nb, max_size=nb, unique=True))
    mothers = [cand[i] for i in idx]
    have = set()
    for m, _ in mothers:
        lines = draw(st.lists(G.decay_line(daughters_pool, (), (), max_daughters=5, max_params=4), min_size=0 if draw(st.integers(0, 4)) == 0 else 1, max_size=4))
        stmts.append({"k": "decay", "m": m, "lines": lines})
        have.add(m)
    # copies: NEW gets its own conjugate partner declared, so that CDecay of a copy is possible
    copies = []
    for i in range(draw(st.integers(0, 3))):
        new, newbar = f"Cpy{i}_B", f"anti-Cpy{i}_B"
        old = draw(st.sampled_from(mothers))[0]
        stmts.append({"k": "copydecay", "new": new, "old": old})
        if draw(st.booleans()):
            stmts.append({"k": "chargeconj", "a": new, "b": newbar} if draw(st.booleans()) else {"k": "chargeconj", "a": newbar, "b": new})
            copies.append((new, newbar))
        have.add(new)
    # a CopyDecay whose new name is the conjugate of a mother: a later CDecay of that name meets a table that is already there
    copy_shadow = []
    free = [c for m, c in mothers if c is not None and c not in have]
    if free and draw(st.sampled_from((False, False, True))):
        c = draw(st.sampled_from(free))
        stmts.append({"k": "copydecay", "new": c, "old": draw(st.sampled_from([m for m, _ in mothers]))})
        have.add(c)
        copy_shadow.append(c)
    # CDecay subjects
    subj = []
    hits = [c for m, c in mothers if c is not None and c not in have] + [nb_ for _, nb_ in copies]
    misses = [c[0] for c in cand if c[1] not in have and c[0] not in have]
    shadowed = [m for m, c in mothers if c in have] + copy_shadow * 3
    k = draw(st.integers(1, 4))
    for _ in range(k):
        kind = draw(st.integers(0, 9))
        src = hits if kind <= 6 else (misses if kind <= 8 else shadowed)
        if not src:
            src = hits or misses or shadowed
        if not src:
            break
        x = draw(st.sampled_from(src))
        if x not in subj:
            subj.append(x)
    for x in subj:
        stmts.append({"k": "cdecay", "x": x})
    stmts = list(draw(st.permutations(stmts)))
    f = {"stmts": stmts, "include_cc": draw(st.sampled_from((True, True, True, True, False))), "first_other": draw(st.sampled_from((False, False, False, True)))}
    f.update(G.file_flags(draw))
    return f


def check_case(f, rec):
    text = G.render(f)
    inc = f.get("include_cc", True)
    exp = R.all_tables(f, include_cc=inc)
    with warnings.catch_warnings():
        warnings.simplefilter("ignore")
        if f.get("first_other"):
            # the same object is first parsed with the opposite switch, then with the intended one (default spelled out or not)
            p = make_parser(text, ID, include_cc=not inc)
            with impl(ID, "parse-again"):
                p.parse() if inc else p.parse(include_ccdecays=False)
        else:
            p = make_parser(text, ID, include_cc=inc)
        try:
            compare_tables(ID, p, exp)
        except Mismatch:
            # CDecay X where X has a table through CopyDecay (not through a Decay block): the statement gives precedence to a
            # Decay block only, so X's single table may be the copy (what the library does) or the conjugate -- but one table
            both = [x for x in R.cdecay_subjects(f) if x in R.copies(f) and x not in R.decay_tables(f)]
            if not (inc and both):
                raise
            ccd_ = R.cc_dict(f)
            have_ = {m: ls for m, o, ls in exp}
            alt = []
            for m, o, ls in exp:
                src = R.conj_name(m, ccd_)
                if m in both and o == "copy" and src in have_:
                    ls = [dict(ln, fs=[R.conj_name(d, ccd_) for d in ln["fs"]], params=list(ln["params"])) for ln in have_[src]]
                alt.append((m, o, ls))
            try:
                compare_tables(ID, p, alt)
            except Mismatch:
                pass
            else:
                both = None
            if both is not None:
                raise
    ccd = R.cc_dict(f)
    conj_tables = [(m, ls) for m, o, ls in exp if o == "conj"]
    src_of = {m: R.conj_name(m, ccd) for m, _ in conj_tables}
    base = {m: ls for m, o, ls in R.all_tables(f, include_cc=False)}
    nt = False
    for m, ls in conj_tables:
        for ln_c, ln_s in zip(ls, base[src_of[m]]):
            if len(ln_c["fs"]) >= 2 and ln_c["fs"] != ln_s["fs"]:
                nt = True
    classes = ["switch-on" if inc else "switch-off"] + (["parsed-first-with-the-other-switch"] if f.get("first_other") else [])
    subjects = R.cdecay_subjects(f)
    have_dec = set(R.decay_tables(f))
    if any(s in have_dec for s in subjects):
        classes.append("cdecay-shadowed-by-decay")
    if any(s in R.copies(f) and s not in have_dec for s in subjects):
        classes.append("cdecay-shadowed-by-copy")
    if inc and len(conj_tables) < len([s for s in subjects if s not in have_dec and s not in R.copies(f)]):
        classes.append("cdecay-miss")
    if any(src_of[m] in R.copies(f) for m, _ in conj_tables):
        classes.append("cdecay-of-copy")
    for s in f["stmts"]:
        if s["k"] == "chargeconj":
            classes.append("chargeconj-statement")
    for m, _ in conj_tables:
        if m in ccd:
            classes.append("subject-is-chargeconj-key")
        elif m in ccd.values():
            classes.append("subject-is-chargeconj-value(reverse)")
        else:
            classes.append("subject-via-particle-table")
    alld = [d for _, ls in conj_tables for ln in ls for d in ln["fs"]]
    if any(d.startswith("ChargeConj(") for d in alld):
        classes.append("unknown-daughter-marked")
    if not inc and len(base) > 3:
        classes.append("switch-off-more-than-3-tables")
    rec.case(f, nt, sorted(set(classes)), sample=lambda: {"text": text, "include_ccdecays": inc,
                                                          "conjugated": [[m, [l["fs"] for l in ls]] for m, ls in conj_tables]})


def replay(case, rec):
    check_case(case, rec)


def units(tier, seed):
    n = 200 if tier == "quick" else 3000
    return [{"name": f"hyp{k:02d}", "kind": "hyp", "n": n} for k in range(16)]


def run_unit(unit, seed, rec, tier):
    hyp_run(rec, c03_file(), check_case, unit["n"], seed, render=G.render)

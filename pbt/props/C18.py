"""C18 -- each amplitude is emitted with exactly its Bose-symmetrised permutations."""
from __future__ import annotations

import itertools
from collections import Counter

from hypothesis import strategies as st

from .. import ampgen as A
from .. import goofit_read as GR
from .. import names as N
from ..harness import Mismatch, hyp_run, impl

ID = "C18"
LEVEL = "exploration"
RULE = (
    "Exhaustive: all binary decay-tree shapes over 2-4 leaves x all assignments of leaves to <=4 particle kinds x all distinct "
    "orderings of the event type with the same multiset (plus event types with one extra particle): list_structure equals the "
    "brute-force set of injective position assignments, each once. Hypothesis: four-body option files over all 12 supported "
    "spin structures, both topologies, all lineshape kinds and orbital-momentum tags, 7 event types, for GooFitChain and "
    "GooFitPyChain: the generated text is parsed (spin-factor entries, lineshape entries, amplitude record) and compared per "
    "permutation with the expected enum names (table transcribed from upstream's pinned reference output, cross-checked against "
    "that file), lineshape kind/resonance/L/mass symbol, and the declared count. Non-trivial: an amplitude with >=2 permutations."
)
ASSUMPTIONS = ["spin-factor enum names per spin structure are those of upstream's pinned reference output tests/output/DtoKpipipi_v2.cu, not physics",
               "spin classes and J of the pinned resonance pool (pbt/data/ampgen_pool.json)", "lookup memo per worker (DESIGN 4.0)"]


# ---------------------------------------------------------------------------------------------
# exhaustive: permutation sets
# ---------------------------------------------------------------------------------------------

def tree_shapes(n):
    """Ordered binary tree shapes over n leaves as nested tuples of leaf indices."""
    def build(lo, hi):
        if hi - lo == 1:
            return [lo]
        out = []
        for mid in range(lo + 1, hi):
            for l in build(lo, mid):
                for r in build(mid, hi):
                    out.append((l, r))
        return out
    return build(0, n)


def make_decay(shape, kinds):
    from decaylanguage.modeling.decay import ModelDecay

    if isinstance(shape, int):
        return ModelDecay(kinds[shape], [], name=kinds[shape])
    return ModelDecay("R", [make_decay(shape[0], kinds), make_decay(shape[1], kinds)], name="R")


def enum_permutations(rec):
    count = nt = 0
    for n in (2, 3, 4):
        for shape in tree_shapes(n):
            for kinds in itertools.product("abcd"[: min(4, n)], repeat=n):
                with impl(ID, "ModelDecay"):
                    dec = make_decay(shape, kinds)
                events = set(itertools.permutations(kinds))
                extra = {tuple(e) + ("z",) for e in list(events)[:2]} | {("a",) + tuple(e) for e in list(events)[:2]}
                for ev in sorted(events) + sorted(extra):
                    want = Counter(A.ref_permutations(list(kinds), list(ev)))
                    with impl(ID, "list_structure"):
                        got = dec.list_structure(list(ev))
                    gotc = Counter(tuple(g) for g in got)
                    if gotc != want:
                        m = Mismatch("C18:permutations", f"leaves {kinds} shape {shape} event {ev}", sorted(want.elements()), sorted(gotc.elements()))
                        m.case = {"perm_case": {"shape": repr(shape), "kinds": list(kinds), "event": list(ev)}}
                        raise m
                    count += 1
                    nt += len(want) >= 2
    rec.bulk(count, nt, {"enum-permutation-sets": count})
    rec.exhaustive.append("binary tree shapes over 2-4 leaves x leaf kind assignments x event-type orderings")
    rec.samples.append({"leaves": ["a", "b", "b", "a"], "event": ["a", "b", "a", "b"], "permutations": A.ref_permutations(list("abba"), list("abab"))})


# ---------------------------------------------------------------------------------------------
# generated four-body files
# ---------------------------------------------------------------------------------------------

@st.composite
def c18_case(draw):
    event = draw(st.sampled_from(A.EVENT_TYPES))
    amps = [draw(A.amplitude4(event)) for _ in range(draw(st.integers(1, 3)))]
    couplings = [[str(draw(st.sampled_from((0, 2)))), draw(N.num_literal(forms=("dec", "neg", "int"))), "0.01", str(draw(st.sampled_from((0, 2)))),
                  draw(N.num_literal(forms=("dec", "neg"))), "0.02"] for _ in amps]
    return {"event": list(event), "amps": amps, "c": couplings, "lang": draw(st.sampled_from(("cpp", "py")))}


def to_ast(case):
    items = [{"k": "event", "p": ["D0", *case["event"]]}]
    gs = sorted({v["name"] for a in case["amps"] for v in a["vertices"] if v["ls"] == "GSpline.EFF"})
    items += A.spline_items(gs, None)
    for a, c in zip(case["amps"], case["c"]):
        items.append({"k": "line", "t": a["tree"], "c": c})
    return {"items": items, "layout": [], "crlf": False}


_TABLE_CHECKED = False


def crosscheck_table():
    """The literal table must agree with the header of upstream's pinned reference output."""
    global _TABLE_CHECKED
    if _TABLE_CHECKED:
        return
    import re
    from pathlib import Path

    import decaylanguage

    p = Path(decaylanguage.__file__).resolve().parents[2] / "tests" / "output" / "DtoKpipipi_v2.cu"
    if p.exists():
        for m in re.finditer(r"^(Dto\w+) : (.*)$", p.read_text(), re.M):
            enums = [x.split(".")[1] for x in m.group(2).split()]
            if A.SPINFACTOR_TABLE.get(m.group(1)) != enums:
                raise RuntimeError(f"pbt table disagrees with upstream reference output for {m.group(1)}: {enums}")
    _TABLE_CHECKED = True


def expected_entries(a, event):
    perms = A.ref_permutations(a["leaves"], event)
    sfs = Counter((name, p) for p in perms for name in a.get("enums", A.SPINFACTOR_TABLE[a["key"]]))
    lss = Counter()
    for p in perms:
        for v in a["vertices"]:
            kind = "RBW" if not v["ls"] else ("GSpline" if v["ls"].startswith("GSpline") else v["ls"].split(".")[0])
            lss[(kind, v["name"], float(v["L"]), A.mass_symbol(v["mass"], p), v["ls"] or "")] += 1
    return perms, sfs, lss


def check_case(case, rec):
    from decaylanguage.modeling.goofit import GooFitChain, GooFitPyChain

    A.install_memo()
    crosscheck_table()
    cls = GooFitChain if case["lang"] == "cpp" else GooFitPyChain
    text = A.render(to_ast(case))
    with impl(ID, "read_ampgen"):
        lines, states = cls.read_ampgen(text=text)
    if len(lines) != len(case["amps"]):
        raise Mismatch("C18:amplitude-count", "amplitudes once each", len(case["amps"]), len(lines))
    nt = False
    classes = {"lang-" + case["lang"]}
    for i, (ln, a) in enumerate(zip(lines, case["amps"])):
        if str(ln) != A.ref_str(a["tree"]):
            raise Mismatch("C18:input-order", f"amplitude {i}", A.ref_str(a["tree"]), str(ln))
        perms, sfs, lss = expected_entries(a, case["event"])
        with impl(ID, "list_structure"):
            got_perms = [tuple(p) for p in ln.list_structure(states[1:])]
        if Counter(got_perms) != Counter(perms):
            raise Mismatch("C18:permutations", f"amplitude {i} {ln}", perms, got_perms)
        with impl(ID, "to_goofit"):
            code = ln.to_goofit(states[1:])
            code_again = ln.to_goofit(states[1:])
        if code_again != code:
            raise Mismatch("C18:unstable", f"amplitude {i} {ln}: two calls of to_goofit on the same line give different text", code[:400], code_again[:400])
        got_sf = Counter(GR.spin_factors(code))
        if got_sf != sfs:
            raise Mismatch("C18:spin-factors", f"amplitude {i} {ln} ({a['key']}, {case['lang']})", sorted(sfs.elements()), sorted(got_sf.elements()))
        got_ls = Counter()
        for d in GR.lineshapes(code):
            detail = ""
            if d["kind"] == "kMatrix":
                detail = "kMatrix." + ("pole" if d["is_pole"] == "true" else "prod") + "." + d["pterm"]
            elif d["kind"] == "FOCUS":
                detail = "FOCUS." + d["mod"]
            elif d["kind"] == "GSpline":
                detail = "GSpline.EFF"
            got_ls[(d["kind"], d["name"], float(d["L"]), d["mass"], detail)] += 1
        if got_ls != lss:
            raise Mismatch("C18:lineshapes", f"amplitude {i} {ln} ({case['lang']})", sorted(lss.elements()), sorted(got_ls.elements()))
        amps = GR.amplitudes(code)
        if len(amps) != 1 or amps[0]["n"] != len(perms) or amps[0]["name"] != str(ln):
            raise Mismatch("C18:amplitude-record", f"amplitude {i} {ln}", {"n": len(perms), "name": str(ln)}, amps)
        if len(perms) >= 2:
            nt = True
        classes.add("structure-" + a["key"])
        classes.add("perms-%d" % len(perms))
        for v in a["vertices"]:
            classes.add("ls-" + (v["ls"] or "RBW").split(".")[0])
    rec.case(case, nt, sorted(classes), sample=lambda: {"text": text, "lang": case["lang"], "first_amplitude_code": code[:1500]})


def replay(case, rec):
    if "perm_case" in case:
        pc = case["perm_case"]
        dec = make_decay(eval(pc["shape"]), pc["kinds"])  # noqa: S307 -- tuple literal written by this module
        got = Counter(tuple(g) for g in dec.list_structure(pc["event"]))
        want = Counter(A.ref_permutations(pc["kinds"], pc["event"]))
        if got != want:
            raise Mismatch("C18:permutations", str(pc), sorted(want.elements()), sorted(got.elements()))
        rec.case(case, True)
    else:
        check_case(case, rec)


def units(tier, seed):
    n = 50 if tier == "quick" else 2500
    return [{"name": "enum-permutations", "kind": "enum"}] + [{"name": f"hyp{k:02d}", "kind": "hyp", "n": n} for k in range(15)]


def run_unit(unit, seed, rec, tier):
    if unit["kind"] == "enum":
        enum_permutations(rec)
    else:
        hyp_run(rec, c18_case(), check_case, unit["n"], seed, render=lambda c: A.render(to_ast(c)))

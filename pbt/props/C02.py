"""C02 -- layout, comments, line ends and file packaging never change what is parsed."""
from __future__ import annotations

import sys
import tempfile
import warnings
from pathlib import Path

from hypothesis import strategies as st

from .. import decgen as G
from .. import decref as R
from .. import rewrite as W
from ..harness import Mismatch, hyp_run, impl
from ..snapshot import diff_snapshots, observed_tables, snapshot

ID = "C02"
LEVEL = "exploration"
RULE = (
    "Metamorphic: snapshot(base) == snapshot(rewritten) over every public query. Bases: (1) Hypothesis-generated files "
    "(general statement mix and acyclic table sets) rendered plainly vs rendered with a drawn layout; (2) every .dec file under "
    "tests/data (incl. the 135 model smoke files; test_issue90.dec is malformed on purpose and skipped); (3) the two shipped "
    "master files cut at top-level statement boundaries into chunks (whole files in the thorough tier). Rewrites: random "
    "compositions of blank lines, comment lines and trailing comments, indentation, inter-token spacing, CRLF, wrapping of "
    "parameter lists, commas between items, repeated semicolons, final End added/removed, then packaging: from_string vs "
    "file constructor vs 2-4 files split at arbitrary line boundaries (also inside blocks / wrapped lists; optionally with an empty file among them), each optionally "
    "closed by its own End and optionally starting with a UTF-8 BOM, last line with/without newline. Non-trivial: >=2 "
    "distinct rewrite kinds actually applied and >=3 lines differing from the base."
)
ASSUMPTIONS = [
    "the text rewriter pbt/rewrite.py only applies the edits listed in C02 (validated by running it on all fixtures of the unchanged tree)",
]
EXTRA = ("CUSTOM_MODEL1", "CUSTOM_MODEL2")


def repo_root():
    import decaylanguage

    return Path(decaylanguage.__file__).resolve().parents[2]


def parse_text(text=None, files=None):
    from decaylanguage import DecFileParser

    with impl(ID, "construct"):
        if files is not None and len(files) % 2 == 0:
            files = [Path(x) for x in files]  # file names may be given as path objects as well as strings
        p = DecFileParser(*files) if files is not None else DecFileParser.from_string(text)
        p.load_additional_decay_models(*EXTRA)
    with impl(ID, "parse"), warnings.catch_warnings():
        warnings.simplefilter("ignore")
        p.parse()
    return p


def safe_mothers(p, max_nodes=1000, max_paths=500):
    """Mothers whose unfolding is acyclic and small, computed independently from the tables."""
    tabs = {}
    for m, lines in observed_tables(p, ID):
        tabs.setdefault(m, lines)
    out = []
    state = {}

    def nodes(m, stack):
        if m in stack:
            raise RecursionError
        if m in state:
            return state[m]
        n = 1
        for ln in tabs[m]:
            n += 1
            for d in ln["fs"]:
                if d in tabs:
                    n += nodes(d, stack | {m})
                    if n > max_nodes:
                        raise OverflowError
        state[m] = n
        return n

    pmemo = {}

    def npaths(m):
        if m in pmemo:
            return pmemo[m]
        total = 0
        for ln in tabs[m]:
            prod = 1
            for d in ln["fs"]:
                if d in tabs and tabs[d]:
                    prod *= npaths(d)
            total += prod
        pmemo[m] = total
        return total

    for m in tabs:
        try:
            if nodes(m, frozenset()) <= max_nodes and npaths(m) <= max_paths:
                out.append(m)
        except (RecursionError, OverflowError):
            pass
    return out[:12]


def full_snapshot(p, mothers=None):
    ms = safe_mothers(p) if mothers is None else mothers
    return snapshot(p, ID, chain_mothers=ms, expand_mothers=ms), ms


pack_strategy = st.fixed_dictionaries({
    "mode": st.sampled_from(("string", "file", "files", "files")),
    "cuts": st.lists(st.integers(0, 999), min_size=1, max_size=3),
    "bom": st.lists(st.booleans(), min_size=0, max_size=4),
    "end": st.lists(st.booleans(), min_size=0, max_size=4),
    "newline": st.lists(st.booleans(), min_size=0, max_size=4),
    "empty_at": st.one_of(st.none(), st.none(), st.integers(0, 4)),
    "empty_bom": st.booleans(),
    "last_newline": st.booleans(),
})
kinds_strategy = st.lists(st.sampled_from(W.KINDS), min_size=1, max_size=6, unique=True)
ints_strategy = st.lists(st.integers(0, 59), min_size=4, max_size=40)


def run_pair(base_text, new_text, pack, label):
    """snapshot(base via from_string) vs snapshot(rewritten via the chosen packaging)."""
    pb = parse_text(base_text)
    sb, ms = full_snapshot(pb)
    if pack["mode"] == "string":
        t = new_text
        last = t.rstrip("\r\n").rsplit("\n", 1)[-1]
        if not pack.get("last_newline", True) and "#" in last:
            t = t.rstrip("\r\n")  # a comment may end the input without a line terminator
        pn = parse_text(t)
    else:
        from ..harness import workdir

        td = workdir("c02")  # the same paths are written again and again with new contents
        pk = dict(pack)
        if pack["mode"] == "file":
            pk["cuts"] = []
        files = W.package(new_text, pk, td)
        pn = parse_text(files=files)
    sn, _ = full_snapshot(pn, ms)
    d = diff_snapshots(sb, sn)
    if d is not None:
        raise Mismatch(f"C02:snapshot:{d[0]}", f"{label}: query {d[0]} differs after rewrite: {d[1]}")
    return len(ms)


def changed_lines(a, b):
    la, lb = a.replace("\r\n", "\n").split("\n"), b.replace("\r\n", "\n").split("\n")
    return sum(1 for x in lb if x not in set(la)) + abs(len(la) - len(lb))


# ---------------------------------------------------------------------------------------------
# (1) generated bases
# ---------------------------------------------------------------------------------------------

@st.composite
def gen_case(draw):
    from .C01 import c01_file

    if draw(st.booleans()):
        f = draw(c01_file())
        f.pop("via_file", None)
    else:
        f = draw(G.table_set_file())
        f.update(G.file_flags(draw))
    if not f["layout"]:
        f["layout"] = draw(st.lists(st.integers(0, 15), min_size=3, max_size=24))
    # End-prefixed parameter words at the start of a continuation line (F14 shape) reached by construction
    if draw(st.integers(0, 5)) == 0:
        for s in f["stmts"]:
            if s["k"] == "decay" and s["lines"]:
                s["lines"][0]["params"] = [{"t": "word", "v": draw(st.sampled_from(("EndpointModel", "EndcapX", "End_1", "Enddecays")))}, {"t": "num", "v": "1.0"}]
                s["lines"][0]["alias"] = False
                if s["lines"][0]["model"] not in G.N.MODELS:
                    s["lines"][0]["model"] = "LbAmpGen"
                break
    return {"ast": f, "pack": draw(pack_strategy)}


def check_gen(case, rec):
    f = case["ast"]
    base = G.render(f, plain=True)
    new = G.render(f)
    n_chain = run_pair(base, new, case["pack"], "generated")
    kinds = {"layout"}
    if f.get("crlf"):
        kinds.add("crlf")
    if f.get("end"):
        kinds.add("end")
    kinds.add("pack-" + case["pack"]["mode"])
    if case["pack"]["mode"] != "string" and any(case["pack"]["bom"][:1]):
        kinds.add("bom-first-file")
    endwords = any(p["v"].startswith("End") for s in f["stmts"] if s["k"] == "decay" for ln in s["lines"] for p in ln["params"])
    if endwords:
        kinds.add("End-prefixed-param-word(F14)")
    nt = len(kinds) >= 3 and changed_lines(base, new) >= 3
    rec.case(case, nt, ["base-generated"] + sorted(kinds) + (["chains-compared"] if n_chain else []),
             sample=lambda: {"base": base, "rewritten": new, "packaging": case["pack"]})


# ---------------------------------------------------------------------------------------------
# (2)+(3) real files
# ---------------------------------------------------------------------------------------------

def data_files():
    root = repo_root() / "tests" / "data"
    files = sorted(p for p in root.rglob("*.dec") if p.name != "test_issue90.dec")
    return files


def master_chunks(fname, target=50):
    """Cut a master file at top-level statement boundaries into ~target chunks; every chunk gets
    the file's ModelAlias statements prepended (a chunk must be a valid file on its own)."""
    import decaylanguage

    path = Path(decaylanguage.__file__).parent / "data" / fname
    lines = path.read_text(encoding="utf-8").replace("\r\n", "\n").split("\n")
    aliases = [l for l in lines if l.strip().startswith("ModelAlias")]
    bounds = [0]
    in_decay = False
    open_stmt = False
    for i, l in enumerate(lines):
        code = l.split("#", 1)[0].strip()
        if not code:
            continue
        first = code.split()[0]
        if not in_decay and not open_stmt and i > 0:
            bounds.append(i)
        if first == "Decay":
            in_decay = True
        elif first == "Enddecay":
            in_decay = False
        elif in_decay or first == "ModelAlias":
            if open_stmt:
                if ";" in code:
                    open_stmt = False
            elif ";" not in code:
                open_stmt = True
    step = max(1, len(bounds) // target)
    cuts = bounds[::step] + [len(lines)]
    chunks = []
    for a, b in zip(cuts, cuts[1:]):
        body = [l for l in lines[a:b] if l.split("#", 1)[0].strip() != "End" and not l.strip().startswith("ModelAlias")]
        chunks.append("\n".join(aliases + body) + "\n")
    return chunks


def base_text(base):
    if base["kind"] == "data":
        return (repo_root() / base["path"]).read_text(encoding="utf-8")
    if base["kind"] == "chunk":
        return master_chunks(base["file"])[base["index"]]
    if base["kind"] == "master":
        import decaylanguage

        return (Path(decaylanguage.__file__).parent / "data" / base["file"]).read_text(encoding="utf-8")
    raise ValueError(base)


def check_real(case, rec):
    text = base_text(case["base"])
    if not text.endswith("\n"):
        text += "\n"
    new, applied = W.rewrite(text, case["kinds"], case["ints"], EXTRA)
    run_pair(text, new, case["pack"], f"{case['base']}")
    kinds = {k for k, v in applied.items() if v}
    kinds.add("pack-" + case["pack"]["mode"])
    if case["pack"]["mode"] != "string" and case["pack"].get("empty_at") is not None:
        kinds.add("pack-with-empty-file")
    nt = len(kinds) >= 3 and changed_lines(text, new) >= 3
    rec.case(case, nt, ["base-" + case["base"]["kind"]] + sorted("rw-" + k for k in kinds),
             sample=lambda: {"base": case["base"], "kinds": case["kinds"], "packaging": case["pack"], "rewritten_head": new[:600]})


def real_case(bases):
    return st.fixed_dictionaries({"base": st.sampled_from(bases), "kinds": kinds_strategy, "ints": ints_strategy, "pack": pack_strategy})


def replay(case, rec):
    if "base_text" in case:  # hand-written regression pair
        run_pair(case["base_text"], case["new_text"], case["pack"], "regression")
        rec.case(case, True, ["regression-pair"])
    elif "ast" in case:
        check_gen(case, rec)
    else:
        check_real(case, rec)


def units(tier, seed):
    u = []
    quick = tier == "quick"
    for k in range(7):
        u.append({"name": f"gen{k:02d}", "kind": "gen", "n": 150 if quick else 3000})
    files = [str(p.relative_to(repo_root())) for p in data_files()]
    for k in range(4):
        u.append({"name": f"data{k}", "kind": "data", "files": files[k::4], "n": 200 if quick else 600})
    for fname in ("DECAY_LHCB.DEC", "DECAY_BELLE2.DEC"):
        if quick:
            u.append({"name": f"chunks-{fname}", "kind": "chunks", "file": fname, "which": None, "n": 40})
        else:
            for k in range(4):
                u.append({"name": f"chunks-{fname}-{k}", "kind": "chunks", "file": fname, "which": k, "n": 120})
            u.append({"name": f"whole-{fname}", "kind": "master", "file": fname, "n": 10})
    return u


def run_unit(unit, seed, rec, tier):
    k = unit["kind"]
    if k == "gen":
        hyp_run(rec, gen_case(), check_gen, unit["n"], seed, render=lambda c: G.render(c["ast"]))
    elif k == "data":
        bases = [{"kind": "data", "path": p} for p in unit["files"]]
        hyp_run(rec, real_case(bases), check_real, unit["n"], seed)
    elif k == "chunks":
        n = len(master_chunks(unit["file"]))
        idx = list(range(n)) if unit["which"] is None else list(range(n))[unit["which"]::4]
        bases = [{"kind": "chunk", "file": unit["file"], "index": i} for i in idx]
        hyp_run(rec, real_case(bases), check_real, unit["n"], seed)
        rec.notes.append(f"{unit['file']}: {n} chunks")
    else:
        hyp_run(rec, real_case([{"kind": "master", "file": unit["file"]}]), check_real, unit["n"], seed, shrink_budget_s=20)

"""C07 -- global declarations are reported completely, later declarations winning."""
from __future__ import annotations

import math
import warnings

from hypothesis import strategies as st

from .. import decgen as G
from .. import decref as R
from .. import names as N
from ..harness import Mismatch, hyp_run, impl
from ..snapshot import make_parser

ID = "C07"
LEVEL = "exploration"
RULE = (
    "Hypothesis draws files with 0-4 statements of each of the sixteen declaration kinds (Alias, ChargeConj, Define, CopyDecay, "
    "CDecay, Particle with/without width, Pythia{Alias,Both,Generic}Param with word and number values, JetSetPar with int and "
    "float values, LSFLAT/LSNONRELBW/LSMANYDELTAFUNC, BlattWeisskopf, ChangeMassMin/Max, IncludeBirth/DecayFactor, "
    "SetLineshapePW, yesPhotos/noPhotos) in any order, interleaved with Decay blocks, over a small pool of labels so that "
    "names repeat, rendered with a drawn layout; all eleven queries are compared (values and value types) with the reference "
    "computed from the AST. Non-trivial: >=4 distinct declaration kinds and >=1 repeated declared name."
)
ASSUMPTIONS = ["particle package widths are the reference for width-less Particle statements"]

QUERIES = (
    "dict_aliases", "dict_charge_conjugates", "dict_definitions", "dict_decays2copy", "list_charge_conjugate_decays",
    "get_particle_property_definitions", "dict_pythia_definitions", "dict_jetset_definitions", "dict_lineshape_settings",
    "list_lineshapePW_definitions", "global_photos_flag",
)


def _width_names():
    from functools import lru_cache

    @lru_cache(maxsize=None)
    def f():
        out = []
        for n in N.evtgen_safe():
            try:
                w = R.reference_width_gev(n)
            except Exception:
                continue
            if isinstance(w, float) and math.isfinite(w):
                out.append(n)
        return tuple(out)

    return f()


_WN = None


def width_names():
    global _WN
    if _WN is None:
        _WN = _width_names()
    return _WN


@st.composite
def c07_file(draw):
    pool = draw(G.name_pool(3, 6))
    real = [draw(st.sampled_from(width_names())) for _ in range(3)]
    lab = st.sampled_from(pool + real)
    stmts = []
    # aliases of real particles (targets for width-less Particle statements)
    alias_names = []
    for i in range(draw(st.integers(0, 4))):
        a = draw(st.one_of(N.alias_name(draw(st.sampled_from(real))), lab))
        tgt = draw(st.sampled_from(real)) if draw(st.integers(0, 3)) else draw(lab)
        stmts.append({"k": "alias", "a": a, "p": tgt})
        alias_names.append(a)
    final_alias = {s["a"]: s["p"] for s in stmts}
    for _ in range(draw(st.integers(0, 4))):
        stmts.append({"k": "chargeconj", "a": draw(lab), "b": draw(lab)})
    for _ in range(draw(st.integers(0, 4))):
        stmts.append({"k": "define", "n": draw(st.sampled_from(("dm", "dgamma", "x.s", "qoverp", "beta~"))), "v": draw(N.num_literal())})
    for _ in range(draw(st.integers(0, 3))):
        stmts.append({"k": "copydecay", "new": draw(lab), "old": draw(lab)})
    for _ in range(draw(st.integers(0, 3))):
        stmts.append({"k": "cdecay", "x": draw(lab)})
    for _ in range(draw(st.integers(0, 4))):
        with_width = draw(st.booleans())
        cands = list(real) + [a for a in alias_names if final_alias.get(a) in real]
        cands = [c for c in cands if final_alias.get(c, c) in real]
        if with_width or not cands:
            n = draw(lab)
            stmts.append({"k": "particle", "n": n, "mass": draw(N.num_literal(nonneg=True)), "width": draw(N.num_literal(nonneg=True))})
        else:
            # the name must resolve (directly or through the *final* alias table) to a particle with a numeric width
            n = draw(st.sampled_from(cands))
            stmts.append({"k": "particle", "n": n, "mass": draw(N.num_literal(nonneg=True)), "width": None})
    kinds = ("pythia", "jetset", "ls", "bw", "masslimit", "incfactor", "lspw", "photos")
    small = pool[:3]
    for k in kinds:
        for _ in range(draw(st.integers(0, 3))):
            stmts.append(draw(G.inert_statement(small + real[:1], kinds=(k,))))
    # order: any
    stmts = draw(st.permutations(stmts))
    stmts = list(stmts)
    # decay blocks interleaved
    for _ in range(draw(st.integers(0, 2))):
        blk = {"k": "decay", "m": draw(st.sampled_from(["Mo1", "Mo2", "Mo3"] + [s["x"] for s in stmts if s["k"] == "cdecay"][:2])), "lines": draw(st.lists(G.decay_line(pool, (), (), max_daughters=3, max_params=3), max_size=2))}
        stmts.insert(draw(st.integers(0, len(stmts))), blk)
    # the alias table that counts is the one of the final statement order (later wins): a width-less
    # Particle statement whose name no longer resolves to a particle with a numeric width gets a width
    final_alias = {s["a"]: s["p"] for s in stmts if s["k"] == "alias"}
    wn = set(width_names())
    for s in stmts:
        if s["k"] == "particle" and s["width"] is None and final_alias.get(s["n"], s["n"]) not in wn:
            s["width"] = "0.25"
    f = {"stmts": stmts}
    f.update(G.file_flags(draw))
    # the declarations are those of the text, whether or not charge-conjugate tables are asked for
    f["cc_off"] = draw(st.sampled_from((False, False, False, True)))
    return f


def _typed_equal(e, o):
    """Equality including value types (bool / int / float / str distinguished)."""
    if isinstance(e, dict):
        return isinstance(o, dict) and set(e) == set(o) and all(_typed_equal(e[k], o[k]) for k in e) and \
            all(type(a) is type(b) for a, b in zip(sorted(e, key=repr), sorted(o, key=repr)))
    if isinstance(e, (list, tuple)):
        return isinstance(o, (list, tuple)) and len(e) == len(o) and all(_typed_equal(a, b) for a, b in zip(e, o))
    if isinstance(e, float):
        return type(o) is float and e == o
    if isinstance(e, bool):
        return type(o) is bool and e == o
    if isinstance(e, int):
        return type(o) is int and e == o
    return type(o) is type(e) and e == o


def check_case(f, rec):
    text = G.render(f)
    want = R.declarations(f)
    # C07 is about the declaration queries; conjugate tables are C03's subject (avoid warnings/time only)
    p = make_parser(text, ID, include_cc=not f.get("cc_off"))
    for q in QUERIES:
        w = want[q]
        try:
            with warnings.catch_warnings():
                warnings.simplefilter("ignore")
                got = getattr(p, q)()
                again = getattr(p, q)()
            if not _typed_equal(got, again) and q != "global_photos_flag":
                raise Mismatch(f"C07:{q}:unstable", "the same query gives two different answers on one parser", got, again)
        except Mismatch:
            raise
        except Exception as e:  # noqa: BLE001
            if q == "dict_lineshape_settings" and w == "raises":
                continue
            raise Mismatch(f"C07:{q}:exception", f"{type(e).__name__}: {e}", w, None) from e
        if q == "dict_lineshape_settings" and w == "raises":
            raise Mismatch("C07:lineshape-repeat-accepted", "a repeated lineshape setting was not reported as an error", "raises", got)
        if q == "global_photos_flag":
            if int(got) != w:
                raise Mismatch("C07:global_photos_flag", "", w, int(got))
            continue
        if q == "get_particle_property_definitions":
            if set(got) != set(w):
                raise Mismatch(f"C07:{q}", "names", sorted(w), sorted(got))
            for n, e in w.items():
                o = got[n]
                if type(o.get("mass")) is not float or o["mass"] != e["mass"]:
                    raise Mismatch(f"C07:{q}", f"mass of {n!r}", e["mass"], o.get("mass"))
                if isinstance(e["width"], tuple):
                    ref = R.reference_width_gev(e["width"][1])
                    if type(o.get("width")) is not float or not math.isclose(o["width"], ref, rel_tol=1e-12, abs_tol=0.0):
                        raise Mismatch("C07:default-width", f"width of {n!r} (reference particle {e['width'][1]!r}, GeV)", ref, o.get("width"))
                elif type(o.get("width")) is not float or o["width"] != e["width"]:
                    raise Mismatch(f"C07:{q}", f"width of {n!r}", e["width"], o.get("width"))
            continue
        if q == "list_lineshapePW_definitions":
            got = [(list(a), b) for a, b in got]
            w = [(list(a), b) for a, b in w]
        if not _typed_equal(w, got):
            raise Mismatch(f"C07:{q}", "", w, got)
    kinds = {s["k"] for s in f["stmts"] if s["k"] != "decay"}
    declared = [(s["k"], s.get("a") or s.get("n") or s.get("new") or s.get("x") or s.get("p") or s.get("name") or s.get("param") or s.get("m"))
                for s in f["stmts"] if s["k"] not in ("decay", "photos", "lspw")]
    repeated = len(set(declared)) < len(declared) or sum(1 for s in f["stmts"] if s["k"] == "photos") > 1
    classes = ["kind-" + k for k in sorted(kinds)]
    if want["dict_lineshape_settings"] == "raises":
        classes.append("lineshape-repeated")
    if any(s["k"] == "particle" and s["width"] is None for s in f["stmts"]):
        classes.append("particle-default-width")
        if any(s["k"] == "particle" and s["width"] is None and s["n"] in want["dict_aliases"] for s in f["stmts"]):
            classes.append("particle-default-width-via-alias")
    if sum(1 for s in f["stmts"] if s["k"] == "photos") > 1:
        classes.append("photos-flag-repeated")
    if repeated:
        classes.append("repeated-name")
    rec.case(f, len(kinds) >= 4 and repeated, classes, sample=lambda: {"text": text, "expected": {k: (v if k != "get_particle_property_definitions" else str(v)) for k, v in want.items()}})


def replay(case, rec):
    check_case(case, rec)


def units(tier, seed):
    n = 200 if tier == "quick" else 3000
    return [{"name": f"hyp{k:02d}", "kind": "hyp", "n": n} for k in range(16)]


def run_unit(unit, seed, rec, tier):
    hyp_run(rec, c07_file(), check_case, unit["n"], seed, render=G.render)

"""C05 -- Define'd parameters and ModelAlias'd models mean exactly their expansion."""
from __future__ import annotations

import copy

from hypothesis import strategies as st

from .. import decgen as G
from .. import decref as R
from .. import names as N
from ..harness import Mismatch, hyp_run, impl
from ..snapshot import compare_tables, make_parser, observed_tables

ID = "C05"
LEVEL = "exploration"
RULE = (
    "Hypothesis draws files with 0-5 Define and 0-4 ModelAlias statements (redefinitions included) in any position relative "
    "to 1-5 Decay blocks that use them 0-k times (also negated, also inside alias parameter lists), plus CopyDecay/CDecay of "
    "those tables and parameter words that are not defined names. Oracle: (1) the decay tables of parse(render(file)) equal "
    "those of parse(render(expand(file))) where expand substitutes, in the AST, every Define'd name by its (negated) literal "
    "and every alias by model+parameters; (2) both equal the reference interpreter; dict_definitions()/dict_model_aliases() "
    "equal the last definitions. Define names never start with '-' (DESIGN 6). Non-trivial: a name defined >=2 times or used "
    ">=2 times, or a definition placed after a use."
)
ASSUMPTIONS = ["reference interpreter pbt/decref.py", "particle tables for conjugate names in CDecay'd tables"]

DEF_NAMES = ("dm", "dgamma", "x_s", "Par.1", "beta~", "q'", "A/B", "rho*", "g", "x", "K", "dm-s", "anti-beta", "CP-odd",
             "_dm.Bs", "(A/2)", "*Kw", "~eta'", "'p", "/2pi", "_")
ALIAS_NAMES = ("MA", "SLBKPOLE_DtoKlnu", "MyModel", "VSS_x", "Mod-1", "m(2)", "SLBKPOLE2", "PHSP3body", "HELAMP100", "SVS7", "X")


@st.composite
def c05_file(draw):
    selfc, paired, unknown = N.evtgen_classes()
    dnames = draw(st.lists(st.sampled_from(DEF_NAMES), min_size=0, max_size=4, unique=True))
    anames = draw(st.lists(st.sampled_from(ALIAS_NAMES), min_size=0, max_size=3, unique=True))
    anames = [a for a in anames if N.safe_label(a)]
    stmts = []
    for n in dnames:
        vals = []
        for _ in range(draw(st.sampled_from((1, 1, 2, 3, 4)))):
            # a redefinition may restore an earlier value verbatim (default, override, restore)
            v = draw(st.sampled_from(vals)) if vals and draw(st.sampled_from((False, False, True))) else draw(N.num_literal())
            vals.append(v)
            stmts.append({"k": "define", "n": n, "v": v})
    # a Define that is never used, and uses of names never defined, are part of the space
    used_defs = dnames + ["undefd"]
    for a in anames:
        defs_a = []
        for _ in range(draw(st.sampled_from((1, 1, 2, 3)))):
            d_ = {"k": "modelalias", "n": a, "model": draw(st.sampled_from(N.MODELS)), "params": draw(G.params_list(used_defs, 6))}
            if defs_a and draw(st.sampled_from((False, False, True))):
                d_ = {**defs_a[0], "params": [dict(p_) for p_ in defs_a[0]["params"]]}  # an earlier definition repeated verbatim
            defs_a.append(d_)
            stmts.append(d_)
    nb = draw(st.integers(1, 5))
    mothers = draw(st.lists(st.sampled_from(paired), min_size=nb, max_size=nb, unique=True))
    pool = draw(G.name_pool(3, 6)) + list(mothers[:2])
    pool = [x for x in pool if x not in dnames and x not in anames]
    for m in mothers:
        lines = draw(st.lists(G.decay_line(pool, used_defs, anames, max_daughters=4, max_params=8), min_size=0, max_size=4))
        stmts.append({"k": "decay", "m": m, "lines": lines})
    taken = set(mothers)
    for i in range(draw(st.integers(0, 2))):
        new = f"MyCopy{i}"
        stmts.append({"k": "copydecay", "new": new, "old": draw(st.sampled_from(mothers))})
        taken.add(new)
    cands = [N.ref_conj(m) for m in mothers if N.ref_conj(m) not in taken]
    for x in draw(st.lists(st.sampled_from(cands), max_size=2, unique=True)) if cands else []:
        stmts.append({"k": "cdecay", "x": x})
    stmts = list(draw(st.permutations(stmts)))
    f = {"stmts": stmts}
    f.update(G.file_flags(draw))
    return f


def neg_literal(text):
    if text.startswith("-"):
        return text[1:]
    if text.startswith("+"):
        return "-" + text[1:]
    return "-" + text


def expand(f):
    """Substitute every use; delete nothing."""
    last_def = {}
    for s in f["stmts"]:
        if s["k"] == "define":
            last_def[s["n"]] = s["v"]
    last_alias = {}
    for s in f["stmts"]:
        if s["k"] == "modelalias":
            last_alias[s["n"]] = (s["model"], s["params"])

    def sub_params(params):
        out = []
        for p in params:
            if p["t"] == "word":
                w = p["v"]
                neg = w.startswith("-")
                key = w[1:] if neg else w
                if key in last_def:
                    out.append({"t": "num", "v": neg_literal(last_def[key]) if neg else last_def[key]})
                    continue
            out.append(dict(p))
        return out

    g = copy.deepcopy(f)
    for s in g["stmts"]:
        if s["k"] == "decay":
            for ln in s["lines"]:
                if ln.get("alias"):
                    model, params = last_alias[ln["model"]]
                    ln["model"], ln["alias"], ln["params"] = model, False, sub_params(params)
                else:
                    ln["params"] = sub_params(ln["params"])
    return g


def usage_stats(f):
    defs = [s["n"] for s in f["stmts"] if s["k"] == "define"]
    als = [s["n"] for s in f["stmts"] if s["k"] == "modelalias"]
    uses = []
    first_use_pos = {}
    def_pos = {}
    for i, s in enumerate(f["stmts"]):
        if s["k"] == "define":
            def_pos.setdefault(("d", s["n"]), i)
        if s["k"] == "modelalias":
            def_pos.setdefault(("a", s["n"]), i)
        plist = []
        if s["k"] == "decay":
            for ln in s["lines"]:
                if ln.get("alias"):
                    uses.append(("a", ln["model"]))
                    first_use_pos.setdefault(("a", ln["model"]), i)
                plist += ln["params"]
        elif s["k"] == "modelalias":
            plist += s["params"]
        for p in plist:
            if p["t"] == "word":
                key = p["v"][1:] if p["v"].startswith("-") else p["v"]
                if key in defs:
                    uses.append(("d", key))
                    first_use_pos.setdefault(("d", key), i)
    multi_def = len(set(defs)) < len(defs) or len(set(als)) < len(als)
    multi_use = len(set(uses)) < len(uses)
    after = any(def_pos.get(k, -1) > pos for k, pos in first_use_pos.items())
    return multi_def, multi_use, after, uses


def check_case(f, rec):
    text = G.render(f)
    g = expand(f)
    text2 = G.render(g)
    exp = R.all_tables(f)
    p1 = make_parser(text, ID)
    compare_tables(ID, p1, exp)
    p2 = make_parser(text2, ID)
    o1, o2 = observed_tables(p1, ID), observed_tables(p2, ID)
    if o1 != o2 or [type(x) for _, ls in o1 for l in ls for x in l["params"]] != [type(x) for _, ls in o2 for l in ls for x in l["params"]]:
        raise Mismatch("C05:expansion-differs", "tables of the file and of its textual expansion differ", o2, o1)
    # the same text with every Define value changed: nothing of the first parse may be remembered
    f3 = copy.deepcopy(f)
    for s_ in f3["stmts"]:
        if s_["k"] == "define":
            s_["v"] = neg_literal(s_["v"]) if float(s_["v"]) != 0 else "7.25"
    p3 = make_parser(G.render(f3), ID)
    compare_tables(ID, p3, R.all_tables(f3))
    with impl(ID, "dict_definitions"):
        dd = p1.dict_definitions()
    if dd != R.defines(f) or not all(type(v) is float for v in dd.values()):
        raise Mismatch("C05:dict_definitions", "", R.defines(f), dd)
    with impl(ID, "dict_model_aliases"):
        dma = p1.dict_model_aliases()
    want = {n: [m] + [p["v"] for p in params] for n, (m, params) in R.model_aliases(f).items()}

    def loose(a, b):  # strings verbatim, or numerically equal (the statement does not fix the representation)
        if a == b:
            return True
        try:
            return float(a) == float(b)
        except (TypeError, ValueError):
            return False

    if set(dma) != set(want) or any(len(dma[k]) != len(want[k]) or not all(loose(a, b) for a, b in zip(want[k], dma[k])) for k in want):
        raise Mismatch("C05:dict_model_aliases", "", want, dma)
    multi_def, multi_use, after, uses = usage_stats(f)
    classes = []
    if multi_def:
        classes.append("redefinition")
    if multi_use:
        classes.append("name-used-twice")
    if after:
        classes.append("definition-after-use")
    blocks_using_alias_with_def = 0
    defs = R.defines(f)
    mal = R.model_aliases(f)
    for s in f["stmts"]:
        if s["k"] == "decay" and any(ln.get("alias") and any(p["t"] == "word" and p["v"].lstrip("-") in defs for p in mal[ln["model"]][1]) for ln in s["lines"]):
            blocks_using_alias_with_def += 1
    if blocks_using_alias_with_def >= 2:
        classes.append("alias-with-define-in-2-blocks(F1)")
    if any(p["t"] == "word" and p["v"].startswith("-") and p["v"][1:] in defs for s in f["stmts"] if s["k"] == "decay" for ln in s["lines"] for p in ln["params"]):
        classes.append("negated-define")
    if any(s["k"] == "copydecay" for s in f["stmts"]):
        classes.append("with-copydecay")
    if any(o == "conj" for _, o, _ in exp):
        classes.append("with-conjugated-table")
    rec.case(f, multi_def or multi_use or after, classes, sample=lambda: {"text": text, "expanded_text": text2})


def replay(case, rec):
    check_case(case, rec)


def units(tier, seed):
    n = 200 if tier == "quick" else 3000
    return [{"name": f"hyp{k:02d}", "kind": "hyp", "n": n} for k in range(16)]


def run_unit(unit, seed, rec, tier):
    hyp_run(rec, c05_file(), check_case, unit["n"], seed, render=G.render)

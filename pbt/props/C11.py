"""C11 -- class, dictionary and parser forms of a decay convert into each other losslessly."""
from __future__ import annotations

import itertools
from collections import Counter

from hypothesis import strategies as st

from .. import chains as C
from .. import decgen as G
from .. import decref as R
from .. import names as N
from ..harness import Mismatch, hyp_run, impl
from ..snapshot import make_parser
from .C04 import json_val

ID = "C11"
LEVEL = "exploration"
RULE = (
    "Exhaustive: (a) all single-chain shapes with <=5 decaying particles, multiplicities <=2, incl. the same decaying particle "
    "below a second parent : DecayChain.from_dict(to_dict()) has the same mother, the same decaying particles "
    "and field-equal modes; (b) DecayMode.from_pdgids for every PDG ID of the EvtGen table. Hypothesis: chains with <=10 "
    "decaying particles, multiplicities <=4, real and arbitrary names, JSON-like metadata under identifier keys; DecayMode "
    "to_dict/from_dict; DaughtersDict from string / list in any order / mapping incl. zero counts / PDG IDs agree, len = total "
    "multiplicity, to_list sorted; parser-produced chains in which every reachable table has one line: from_dict(chain).to_dict() "
    "equals chain up to daughter order at every level. Non-trivial: chain with >=2 decaying particles and non-empty user "
    "metadata (generated), or a decaying particle occurring >=2 times (enumerated)."
)
ASSUMPTIONS = ["model_params None and '' are the same absent value (the code normalises on purpose)"]

meta_key = st.sampled_from(("model", "model_params", "study", "year", "zfit", "note", "tag_1", "x", "mother", "decays", "metadata", "info"))
meta_strategy = st.dictionaries(meta_key, json_val, max_size=4)


def norm_meta(md):
    out = {"model": "", "model_params": ""}
    out.update(md)
    if out.get("model_params") is None:
        out["model_params"] = ""
    return out


def mode_fields(dm):
    return (dm.bf, Counter(dict(dm.daughters.items())), norm_meta(dict(dm.metadata)))


def check_chain_roundtrip(case):
    from decaylanguage import DecayChain

    with impl(ID, "build"):
        dc = C.build_chain(case)
        d = dc.to_dict()
    with impl(ID, "DecayChain.from_dict"):
        dc2 = DecayChain.from_dict(d)
    if dc2.mother != dc.mother:
        raise Mismatch("C11:chain-mother", "", dc.mother, dc2.mother)
    # decaying particles reachable from the mother (an unreachable entry of the mapping is not part of the chain)
    reach = set()

    def walk(t):
        if not isinstance(t, str):
            reach.add(t[0])
            for c in t[1]:
                walk(c)

    walk(C.ref_tree(case))
    if set(dc2.decays) != reach:
        raise Mismatch("C11:chain-decaying-set", "set of decaying particles", sorted(reach), sorted(dc2.decays))
    for m in reach:
        a, b = mode_fields(dc.decays[m]), mode_fields(dc2.decays[m])
        if a != b or type(a[0]) is not type(b[0]):
            raise Mismatch("C11:chain-mode", f"mode of {m!r} after to_dict/from_dict", a, b)
    with impl(ID, "to_dict-again"):
        d2 = dc2.to_dict()
    if d2 != d:
        raise Mismatch("C11:chain-dict", "to_dict(from_dict(d)) != d", d, d2)
    return d


def check_gen_chain(case, rec):
    c = case["chain"]
    check_chain_roundtrip(c)
    # every single mode as well
    from decaylanguage import DecayMode

    for m, b, ds, md in c["decays"]:
        with impl(ID, "DecayMode roundtrip"):
            dm = DecayMode(b, list(ds), **md)
            dd = dm.to_dict()
            dm2 = DecayMode.from_dict(dd)
        want_meta = {"model": "", "model_params": ""}
        want_meta.update(md)
        if dict(dm.metadata) != want_meta or dm.bf != b or Counter(dict(dm.daughters.items())) != Counter(ds):
            raise Mismatch("C11:mode-as-given", f"{m!r}: a mode does not hold what it was constructed with", [b, sorted(ds), want_meta], [dm.bf, dm.daughters.to_list(), dict(dm.metadata)])
        if mode_fields(dm) != mode_fields(dm2):
            raise Mismatch("C11:mode-roundtrip", f"{m!r}", mode_fields(dm), mode_fields(dm2))
        if dd["fs"] != sorted(ds):
            raise Mismatch("C11:mode-dict-fs", "fs must list every daughter once per multiplicity in canonical (sorted) order", sorted(ds), dd["fs"])
        # the same final state given in the other accepted forms
        from decaylanguage import DaughtersDict
        forms = {"tuple": tuple(reversed(ds)), "mapping": dict(Counter(ds)), "DaughtersDict": DaughtersDict(list(ds))}
        if ds and all(" " not in x and "\t" not in x and x.strip() == x and x for x in ds):
            forms["string"] = "  ".join(ds)
        # a mode owns its final state: changing the object it was built from afterwards must not change the mode
        src_dd = DaughtersDict(list(ds))
        with impl(ID, "DecayMode(DaughtersDict) then mutate"):
            own = DecayMode(b, src_dd, **md)
            src_dd["__late_addition__"] += 2
            src_dd.clear()
        if mode_fields(own) != mode_fields(dm):
            raise Mismatch("C11:mode-shares-input", f"{m!r}: the mode changed when the DaughtersDict it was built from was modified", mode_fields(dm), mode_fields(own))
        for how, val in forms.items():
            with impl(ID, f"DecayMode({how})"):
                other = DecayMode(b, val, **md)
            if mode_fields(other) != mode_fields(dm):
                raise Mismatch("C11:mode-constructor", f"{m!r}: daughters given as {how}", mode_fields(dm), mode_fields(other))
        # a user may annotate a mode in place; that is the business of that one object
        dm.metadata["__scratch_note__"] = "x"
        own.metadata.clear()
    decaying = {d[0] for d in c["decays"]}
    occ = Counter(x for _, _, ds, _ in c["decays"] for x in ds if x in decaying)
    classes = []
    if any(v >= 2 for v in occ.values()):
        classes.append("decaying-particle-occurs-twice(F4)")
    has_meta = any(md for _, _, _, md in c["decays"])
    if has_meta:
        classes.append("user-metadata")
    rec.case(case, len(decaying) >= 2 and has_meta, classes, sample=lambda: {"chain": c})


@st.composite
def gen_chain_case(draw):
    label = st.one_of(st.sampled_from(N.evtgen_names()), st.text(alphabet="abcXYZ019+-*'()_~/.", min_size=1, max_size=6))
    c = draw(C.chain_case(max_decaying=10, max_daughters=4, max_mult=4, names=None if draw(st.booleans()) else label, meta=meta_strategy))
    return {"chain": c}


# ---------------------------------------------------------------------------------------------
# final states
# ---------------------------------------------------------------------------------------------

@st.composite
def fs_case(draw):
    names = draw(st.lists(st.one_of(st.sampled_from(N.evtgen_names()), st.text(alphabet="abcXYZ019+-*'()_~", min_size=1, max_size=5),
                                    st.sampled_from(("X(3872),a", "a,b", ",", "K+,", "p;q", "a=b", "x:y", "[k]", "{z}", "pi|pi"))),  # only white space separates names
                          min_size=0, max_size=6, unique=True))
    counts = [draw(st.integers(0, 4)) for _ in names]
    order = draw(st.permutations(list(range(sum(counts)))))
    seps = draw(st.lists(st.sampled_from((" ", " ", "  ", "\t", " \t ", "\n", "   ")), min_size=1, max_size=6))
    return {"names": names, "counts": counts, "order": list(order), "seps": seps, "pad": draw(st.sampled_from(("", "", " ", "\t")))}


def check_fs(case, rec):
    from decaylanguage import DaughtersDict, DecayMode
    from particle.converters import EvtGenName2PDGIDBiMap as B

    names, counts = case["names"], case["counts"]
    flat = [n for n, c in zip(names, counts) for _ in range(c)]
    perm = [flat[i] for i in case["order"]]
    want = Counter({n: c for n, c in zip(names, counts) if c > 0})
    with impl(ID, "DaughtersDict"):
        forms = {
            "mapping": DaughtersDict(dict(zip(names, counts))),
            "list": DaughtersDict(list(perm)),
            "string": DaughtersDict(" ".join(perm)),
            "string-ws": DaughtersDict(case.get("pad", "") + "".join(n + (case.get("seps") or [" "])[i % len(case.get("seps") or [" "])] for i, n in enumerate(perm)).rstrip()
                                       + case.get("pad", "")) if perm else DaughtersDict(""),
            "sorted-list": DaughtersDict(sorted(flat)),
        }
        half = len(perm) // 2
        forms["sum"] = DaughtersDict(list(perm[:half])) + DaughtersDict(list(perm[half:]))
        acc = DaughtersDict(list(perm[:half]))
        acc += DaughtersDict(list(perm[half:]))
        forms["in-place-sum"] = acc
        kw = dict(Counter(perm[half:]))
        forms["mixed-constructor"] = DaughtersDict(list(perm[:half]), **kw) if all(isinstance(k, str) and k not in ("iterable", "self") for k in kw) else DaughtersDict(list(perm))
        if all(isinstance(k, str) and k not in ("iterable", "self") for k in kw):
            forms["mixed-mapping-constructor"] = DaughtersDict(dict(Counter(perm[:half])), **kw)  # counts of a shared name add up
            forms["mixed-string-constructor"] = DaughtersDict(" ".join(perm[:half]), **kw)
        if all(n in B._to_map for n in flat) and flat:
            forms["pdgids"] = DecayMode.from_pdgids(0.5, [int(B._to_map[n]) for n in perm]).daughters
    for how, dd in forms.items():
        got = Counter({k: v for k, v in dict.items(dd) if v > 0})
        if got != want:
            raise Mismatch("C11:final-state", f"constructed from {how}", dict(want), dict(got))
        with impl(ID, "DaughtersDict queries"):
            ln, tl, ts, it = len(dd), dd.to_list(), dd.to_string(), list(dd)
        if ln != len(flat):
            raise Mismatch("C11:len", f"from {how}", len(flat), ln)
        if tl != sorted(flat) or ts != " ".join(sorted(flat)) or sorted(it) != sorted(flat):
            raise Mismatch("C11:canonical-order", f"from {how}", sorted(flat), tl)
    rec.case(case, len(flat) >= 3 and max(counts or [0]) >= 2, ["fs-with-zero-count" if 0 in counts else "fs-no-zero", "fs-pdgids" if "pdgids" in forms else "fs-no-pdgids"],
             sample=lambda: {"final_state": dict(want), "given_as": perm})


# ---------------------------------------------------------------------------------------------
# parser-produced single-line chains
# ---------------------------------------------------------------------------------------------

def canon_chain(d):
    (m, modes), = d.items()
    out = []
    for mode in modes:
        fs = sorted((canon_chain(x) if isinstance(x, dict) else x for x in mode["fs"]), key=repr)
        rest = {k: v for k, v in mode.items() if k != "fs"}
        out.append((repr(sorted(rest.items(), key=lambda kv: kv[0])), fs))
    return (m, out)


@st.composite
def parser_case(draw):
    f = draw(G.table_set_file(3, 7, max_lines=1, with_aliases=False))
    for s in f["stmts"]:
        if s["k"] == "decay":
            s["lines"] = s["lines"][:1]  # single chains: every table has exactly one line
        if s["k"] == "decay" and not s["lines"]:
            s["lines"] = [{"bf": "1.0", "d": ["zz_leaf", "zz_leaf"], "photos": False, "model": "PHSP", "alias": False, "params": []}]
    return f


def check_parser(f, rec):
    from decaylanguage import DecayChain

    text = G.render(f)
    tables = R.decay_tables(f)
    p = make_parser(text, ID)
    nt = False
    for m in tables:
        if R.count_nodes(tables, m) > 300:
            continue
        with impl(ID, "build_decay_chains"):
            ch = p.build_decay_chains(m)
        with impl(ID, "from_dict(parser chain)"):
            back = DecayChain.from_dict(ch).to_dict()
        if canon_chain(back) != canon_chain(ch):
            raise Mismatch("C11:parser-chain", f"mother {m!r}: from_dict(chain).to_dict() differs from chain (up to daughter order)", ch, back)
        nt = nt or R.count_nodes(tables, m) >= 5
    rec.case(f, nt, ["parser-chain"], sample=lambda: {"text": text})


def replay(case, rec):
    if "chain" in case:
        check_gen_chain(case, rec)
    elif "names" in case:
        check_fs(case, rec)
    elif "pdgid" in case:
        check_pdgid(case["pdgid"])
        rec.case(case, True)
    else:
        check_parser(case, rec)


def check_pdgid(pid):
    from decaylanguage import DecayMode
    from particle.converters import EvtGenName2PDGIDBiMap as B

    name = B._from_map[pid]
    with impl(ID, "from_pdgids"):
        dm = DecayMode.from_pdgids(0.25, [pid, pid], model="PHSP")
        empty = DecayMode.from_pdgids(0.5, [], model="PHSP", study="toy")
        empty2 = DecayMode.from_pdgids(0.5, (), model_params=[1.0])
    if empty.bf != 0.5 or len(empty.daughters) != 0 or empty.metadata != {"model": "PHSP", "model_params": "", "study": "toy"} \
            or empty2.metadata != {"model": "", "model_params": [1.0]}:
        raise Mismatch("C11:from_pdgids-empty", "empty final state given as PDG IDs with model info / metadata", {"model": "PHSP", "model_params": "", "study": "toy"}, dict(empty.metadata))
    if Counter(dict(dm.daughters.items())) != Counter({name: 2}) or dm.bf != 0.25 or dm.metadata.get("model") != "PHSP":
        raise Mismatch("C11:from_pdgids", f"PDG ID {pid}", {name: 2}, dict(dm.daughters.items()))


def units(tier, seed):
    quick = tier == "quick"
    u = [{"name": "enum-pdgids", "kind": "pdgids"}]
    u += [{"name": f"enum-shapes-n{n}", "kind": "shapes", "n": n} for n in (1, 2, 3, 4, 5)]
    u += [{"name": f"hyp-chain{k:02d}", "kind": "chain", "n": 600 if quick else 12000} for k in range(5)]
    u += [{"name": f"hyp-fs{k:02d}", "kind": "fs", "n": 300 if quick else 5000} for k in range(3)]
    u += [{"name": f"hyp-parser{k:02d}", "kind": "parser", "n": 100 if quick else 1500} for k in range(4)]
    return u


def run_unit(unit, seed, rec, tier):
    k = unit["kind"]
    if k == "pdgids":
        from particle.converters import EvtGenName2PDGIDBiMap as B

        for pid in B._from_map:
            try:
                check_pdgid(int(pid))
            except Mismatch as m:
                m.case = {"pdgid": int(pid)}
                raise
        rec.bulk(len(B._from_map), len(B._from_map), {"pdgid": len(B._from_map)})
        rec.exhaustive.append(f"all {len(B._from_map)} PDG IDs of the EvtGen table")
    elif k == "shapes":
        count = nt = 0
        for shape in C.enum_shapes(unit["n"], 2, True):
            for perm in itertools.permutations(range(unit["n"])) if unit["n"] <= 3 else [tuple(range(unit["n"])), tuple(reversed(range(unit["n"])))]:
                case = {"mother": shape["mother"], "decays": [shape["decays"][i] for i in perm]}
                try:
                    check_chain_roundtrip(case)
                except Mismatch as m:
                    m.case = {"chain": case}
                    raise
                count += 1
                nt += C.has_repeated_subdecay(C.ref_tree(case)) or any(
                    sum(1 for _, _, ds, _ in case["decays"] if n in ds) >= 2 for n in [d[0] for d in case["decays"]])
            if len(rec.samples) < 1 and unit["n"] >= 3:
                rec.samples.append({"chain": shape})
        rec.bulk(count, nt, {f"enum-shapes-n{unit['n']}": count})
        rec.exhaustive.append(f"chain shapes n={unit['n']} mult<=2 + second parent")
    elif k == "chain":
        hyp_run(rec, gen_chain_case(), check_gen_chain, unit["n"], seed)
    elif k == "fs":
        hyp_run(rec, fs_case(), check_fs, unit["n"], seed)
    else:
        hyp_run(rec, parser_case(), check_parser, unit["n"], seed, render=G.render)

"""C17 -- AmpGen option files are read into the amplitudes and tables they state."""
from __future__ import annotations

import cmath
import math

from hypothesis import strategies as st

from .. import ampgen as A
from .. import names as N
from ..harness import Mismatch, hyp_run, impl

ID = "C17"
LEVEL = "exploration"
RULE = (
    "Hypothesis draws AmpGen option texts from an AST: one EventType (mothers D0/D+/B0, 3-4 final-state particles incl. "
    "repeats), 1-6 full decay lines of the mother nested to depth 3 over a pinned pool of 30 resonance names, daughters "
    "written bare with 0-3 separately given alternative lines per name (which may again contain bare names), [S|P|D], "
    "[lineshape] and [D;lineshape] tags, couplings in every numeric literal form with fix flags 0/2/3, 0-8 parameter lines (now and then the same name on several lines) "
    "and 0-5 constant lines (names with '::'), Output/nEvents options, single-component and 'a = b' lines (grammar kinds that are read and ignored), the coherent-sum option absent/0/1, comments, blank "
    "lines, CRLF, items in any order. Oracle: reference expansion over the AST (cartesian product, file order, left-most "
    "slowest); str(line), tags, coupling (|.|*exp(i phase), or re+i*im under the cartesian option) within 1e-12 at every node, "
    "parameter/constant rows in order, event-type particles by pinned PDG ID; no exception for any generated text. "
    "Non-trivial: >=1 partial line expanded by >=2 alternatives, or the coherent-sum option present."
)
ASSUMPTIONS = ["pbt/data/ampgen_pool.json pins AmpGen name -> PDG ID (hand-verified); particle's str() of that ID is the reference spelling",
               "particle look-ups are memoised per (name, table size) inside a worker (DESIGN 4.0)"]

PARAM_NAMES = ("D0_radius", "IS_p1_4pi", "IS_p2_KK", "f_scatt0", "f_scatt3", "s0_prod", "sA", "sA_0", "K(1)(1270)bar-::Spline::Gamma::0",
               "a(1)(1260)+::Spline::Gamma::12", "rho(770)0_mass", "K*(892)bar0_width", "PiPi00_x", "Lambda'_p*")
CONST_NAMES = ("a(1)(1260)+::Spline::Min", "a(1)(1260)+::Spline::Max", "a(1)(1260)+::Spline::N", "K(1460)bar-::Spline::N", "Pi", "c_light", "m/2")


@st.composite
def subtree(draw, depth, bare_names, allow_bare=True):
    """A daughter: a final-state particle, a resonance with explicit sub-decay, or a bare resonance name."""
    c = draw(st.integers(0, 9))
    if depth <= 0 or c <= 3:
        return {"n": draw(st.sampled_from(sorted(A.FINAL))), "d": []}
    name = draw(st.sampled_from(sorted(A.RES)))
    if allow_bare and c <= 6:
        bare_names.append(name)
        return {"n": name, "d": []}
    return draw(decay_tree(name, depth, bare_names))


@st.composite
def decay_tree(draw, name, depth, bare_names):
    t = {"n": name, "d": [draw(subtree(depth - 1, bare_names)), draw(subtree(depth - 1, bare_names))]}
    k = draw(st.integers(0, 5))
    if k == 1:
        t["sf"] = draw(st.sampled_from(("S", "P", "D")))
    elif k == 2:
        t["ls"] = draw(st.sampled_from(A.LINESHAPES))
    elif k == 3:
        t["sf"], t["ls"] = draw(st.sampled_from(("S", "P", "D"))), draw(st.sampled_from(A.LINESHAPES))
    return t


@st.composite
def coupling(draw):
    f1, f2 = draw(st.sampled_from((0, 2, 3, 0, 2))), draw(st.sampled_from((0, 2, 3, 0, 2)))
    if draw(st.integers(0, 2)) == 0:
        f2 = f1
    num = N.num_literal(forms=("int", "dec", "neg", "plus", ".frac", "Exp", "int."))
    return [str(f1), draw(num), draw(N.num_literal(nonneg=True, forms=("dec", "int", "tiny"))), str(f2), draw(num), draw(N.num_literal(nonneg=True, forms=("dec", "int", "tiny")))]


@st.composite
def c17_case(draw):
    mother = draw(st.sampled_from(sorted(A.MOTHERS)))
    nf = draw(st.integers(3, 4))
    event = [mother] + [draw(st.sampled_from(sorted(A.FINAL))) for _ in range(nf)]
    items = [{"k": "event", "p": event}]
    bare = []
    for _ in range(draw(st.integers(1, 6))):
        items.append({"k": "line", "t": draw(decay_tree(mother, 3, bare)), "c": draw(coupling())})
    # alternative lines for bare names (their daughters may be bare again, one level further down)
    done = set()
    level = 0
    while bare and level < 2:
        nxt_bare = []
        for name in list(dict.fromkeys(bare)):
            if name in done:
                continue
            done.add(name)
            for _ in range(draw(st.sampled_from((0, 1, 1, 2, 2, 3)))):
                items.append({"k": "line", "t": draw(decay_tree(name, 2 - level, nxt_bare)), "c": draw(coupling())})
        bare = [b for b in nxt_bare if b not in done]
        level += 1
    # bare names of the last level that are left without lines stay bare (no substitution)
    for n in draw(st.lists(st.sampled_from(PARAM_NAMES), max_size=8, unique=draw(st.sampled_from((True, True, False))))):
        items.append({"k": "var", "n": n, "flag": str(draw(st.sampled_from((0, 2, 3)))), "v": draw(N.num_literal()), "e": draw(N.num_literal(nonneg=True))})
    for n in draw(st.lists(st.sampled_from(CONST_NAMES), max_size=5, unique=True)):
        items.append({"k": "const", "n": n, "v": draw(N.num_literal())})
    cart = draw(st.sampled_from((None, None, 0, 1, 1)))
    if cart is not None:
        items.append({"k": "cart", "v": cart})
    if draw(st.integers(0, 3)) == 0:
        items.append({"k": "output", "v": draw(st.sampled_from(("out.root", "a b.root", "x#y")))})
    if draw(st.integers(0, 3)) == 0:
        items.append({"k": "nevents", "v": draw(st.integers(0, 100000))})
    # the two other line kinds of the options grammar: read without error, no influence on the result
    for _ in range(draw(st.sampled_from((0, 0, 0, 1, 2)))):
        junk = []
        items.append({"k": "cartline", "t": draw(decay_tree(draw(st.sampled_from(sorted(A.RES))), 2, junk, )), "c": draw(coupling())[:3]})
    if draw(st.sampled_from((False, False, False, True))):
        items.append({"k": "invert", "a": draw(st.sampled_from(sorted(A.RES))), "b": draw(st.sampled_from(sorted(A.RES)))})
    head = items[:1] if draw(st.booleans()) else []
    rest = items[1:] if head else items
    rest = list(draw(st.permutations(rest)))
    # a bare name must not pick up lines of deeper levels that would make the expansion cyclic: names of
    # alternative lines never occur below themselves because every level draws from fresh `done` names only
    return {"items": head + rest, "layout": draw(st.one_of(st.just([]), st.lists(st.integers(0, 11), min_size=2, max_size=16))), "crlf": draw(st.integers(0, 5)) == 0,
            "nofinal": draw(st.sampled_from((False, False, True))),
            # which reader class is asked, and what the same class read just before (nothing, a polar file, a cartesian file)
            "reader": draw(st.sampled_from(("base", "base", "goofit", "goofitpy"))), "before": draw(st.sampled_from((None, None, "polar", "cart")))}


def acyclic(a):
    lines = [i for i in a["items"] if i["k"] == "line"]
    by = {}
    for ln in lines:
        by.setdefault(ln["t"]["n"], []).append(ln["t"])

    def bare_names(t):
        if not t["d"]:
            return [t["n"]] if t["n"] in by else []
        return [x for d in t["d"] for x in bare_names(d)]

    state = {}

    def visit(n):
        if state.get(n) == 1:
            return False
        if state.get(n) == 2:
            return True
        state[n] = 1
        for t in by[n]:
            for b in bare_names(t):
                if not visit(b):
                    return False
        state[n] = 2
        return True

    return all(visit(n) for n in by)


def count_expansion(a):
    lines = [i for i in a["items"] if i["k"] == "line"]
    memo = {}

    def cnt(t):
        if t["d"]:
            return cnt(t["d"][0]) * cnt(t["d"][1])
        alts = [ln["t"] for ln in lines if ln["t"]["n"] == t["n"]]
        if not alts:
            return 1
        if t["n"] not in memo:
            memo[t["n"]] = sum(cnt(x) for x in alts)
        return memo[t["n"]]

    return sum(cnt(ln["t"]) for ln in lines)


def check_tree(node, ref, cartesian, path):
    if str(node.particle.pdgid) != str(A.ALL_IDS[ref["n"]]) and int(node.particle.pdgid) != A.ALL_IDS[ref["n"]]:
        raise Mismatch("C17:particle", f"{path}: {ref['n']!r}", A.ALL_IDS[ref["n"]], int(node.particle.pdgid))
    if len(node.daughters) != len(ref["d"]):
        raise Mismatch("C17:tree", f"{path}: number of daughters", len(ref["d"]), len(node.daughters))
    if ref["d"]:
        if (node.spinfactor or None) != ref.get("sf") or (node.lineshape or None) != ref.get("ls"):
            raise Mismatch("C17:tags", f"{path}: spin/lineshape tags", [ref.get("sf"), ref.get("ls")], [node.spinfactor, node.lineshape])
    want_amp = A.ref_amp(ref["_amp"], cartesian) if "_amp" in ref else None
    if want_amp is not None and not cmath.isclose(node.amp, want_amp, rel_tol=1e-12, abs_tol=1e-300):
        raise Mismatch("C17:coupling", f"{path}: coupling of the line for {ref['n']!r} (cartesian={cartesian})", want_amp, node.amp)
    for i, (d, r) in enumerate(zip(node.daughters, ref["d"])):
        check_tree(d, r, cartesian, f"{path}/{i}")


def check_case(a, rec):
    from decaylanguage.modeling.amplitudechain import AmplitudeChain

    A.install_memo()
    if not acyclic(a) or count_expansion(a) > 400:
        rec.case(a, False, ["skipped-cyclic-or-too-big"])
        return
    text = A.render(a)
    reader = a.get("reader", "base")
    if reader == "base":
        cls = AmplitudeChain
    else:
        from decaylanguage.modeling import goofit as _g

        cls = _g.GooFitChain if reader == "goofit" else _g.GooFitPyChain
    if a.get("before"):
        first = "EventType D0 K- pi+ pi+ pi-\n" + ("FastCoherentSum::UseCartesian 1\n" if a["before"] == "cart" else "") + \
            "D0{K*(892)bar0{K-,pi+},rho(770)0{pi+,pi-}} 2 1 0 2 0.5 0\n"
        with impl(ID, "read_ampgen (an earlier file)"):
            cls.read_ampgen(text=first)
    with impl(ID, "read_ampgen"):
        if reader == "base":
            lines, pars, consts, states = cls.read_ampgen(text=text)
        else:
            lines, states = cls.read_ampgen(text=text)  # the converter classes keep the two tables on the class
            pars, consts = cls.pars, cls.consts
    A.ensure_special_table()
    ref = A.ref_read(a)
    got_states = [int(s.pdgid) for s in states]
    if got_states != ref["event"]:
        raise Mismatch("C17:event-type", "event-type particles in order", ref["event"], got_states)
    with impl(ID, "tables"):
        got_vars = [(n, bool(r["fix"]), float(r["value"]), float(r["error"])) for n, r in pars.iterrows()]
        got_consts = [(n, float(r["value"])) for n, r in consts.iterrows()]
    if got_vars != ref["vars"]:
        raise Mismatch("C17:parameters", "parameter table rows", ref["vars"], got_vars)
    if got_consts != ref["consts"]:
        raise Mismatch("C17:constants", "constants table rows", ref["consts"], got_consts)
    if len(lines) != len(ref["amps"]):
        raise Mismatch("C17:amplitude-count", "one amplitude per complete decay line (full expansion)", [s for s, *_ in ref["amps"]], [str(x) for x in lines])
    fix_by_kind = {}
    for i, (ln, (s, amp, tree, c)) in enumerate(zip(lines, ref["amps"])):
        with impl(ID, "str(line)"):
            got_s = str(ln)
        if got_s != s:
            raise Mismatch("C17:amplitude", f"amplitude {i}", s, got_s)
        if not isinstance(ln.amp, complex) or not cmath.isclose(ln.amp, amp, rel_tol=1e-12, abs_tol=1e-300):
            raise Mismatch("C17:coupling", f"amplitude {i} {s} (cartesian={ref['cartesian']})", amp, ln.amp)
        check_tree(ln, dict(tree, _amp=c), ref["cartesian"], f"amp{i}")
        f1, f2 = int(c[0]) > 0, int(c[3]) > 0
        if f1 == f2:
            fix_by_kind.setdefault("fixed" if f1 else "free", set()).add(bool(ln.fix))
    if all(len(v) > 1 for v in fix_by_kind.values()) and fix_by_kind:
        raise Mismatch("C17:fix-flag", "lines with the same fix flags report different fixedness", None, {k: sorted(v) for k, v in fix_by_kind.items()})
    if len(fix_by_kind) == 2 and fix_by_kind["fixed"] & fix_by_kind["free"]:
        raise Mismatch("C17:fix-flag", "fully fixed and fully free lines are not distinguished", None, {k: sorted(v) for k, v in fix_by_kind.items()})
    line_items = [i for i in a["items"] if i["k"] == "line"]
    names = [i["t"]["n"] for i in line_items]
    multi_alt = any(names.count(n) >= 2 and A.ALL_IDS[n] != ref["event"][0] for n in names)
    has_cart = any(i["k"] == "cart" for i in a["items"])
    classes = ["cartesian-%s" % next((str(i["v"]) for i in a["items"] if i["k"] == "cart"), "absent")]
    classes.append("reader-" + a.get("reader", "base") + ("-after-a-%s-file" % a["before"] if a.get("before") else ""))
    if multi_alt:
        classes.append("bare-name-with->=2-alternatives")
    if len(ref["amps"]) > sum(1 for n in names if A.ALL_IDS[n] == ref["event"][0]):
        classes.append("expansion-multiplies")
    if a.get("crlf"):
        classes.append("crlf")
    if len(set(ref["event"][1:])) < len(ref["event"][1:]):
        classes.append("event-type-repeated-particle")
    rec.case(a, multi_alt or has_cart, classes, sample=lambda: {"text": text, "amplitudes": [s for s, *_ in ref["amps"]][:6]})


def replay(case, rec):
    check_case(case, rec)


def units(tier, seed):
    n = 80 if tier == "quick" else 1200
    return [{"name": f"hyp{k:02d}", "kind": "hyp", "n": n} for k in range(16)]


def run_unit(unit, seed, rec, tier):
    hyp_run(rec, c17_case(), check_case, unit["n"], seed, render=A.render)

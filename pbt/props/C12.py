"""C12 -- flattening multiplies branching fractions and keeps exactly the leaves."""
from __future__ import annotations

import itertools
import math
from collections import Counter

from hypothesis import strategies as st

from .. import chains as C
from ..harness import Mismatch, hyp_run, impl
from .C04 import json_val, meta_key

ID = "C12"
LEVEL = "exploration"
RULE = (
    "Exhaustive: all tree shapes over n<=5 decaying particles with multiplicities <=3 (thorough: "
    "also n=6 with <=3; n<=4 with and without a particle re-occurring below a second parent) x every permutation of "
    "the sub-decay mapping (<=24; 20 evenly spaced permutations beyond) x every subset of the decaying particles (mother "
    "excluded) as stable set. Hypothesis: chains with <=12 decaying particles, particles re-occurring at several depths, "
    "bf in [1e-6,1], metadata, stable sets passed as list/tuple/set. Oracle: recursive walk (leaves multiset, product of bf "
    "with multiplicity, relative tolerance 1e-9); exactly one decay left; top-level metadata kept; input chain unchanged; "
    "visible_bf == flatten().bf. Non-trivial: >=3 decaying particles with one at depth >=2 or multiplicity >=2."
)
ASSUMPTIONS = ["floating-point products compared with relative tolerance 1e-9 (multiplication order differs)"]


def check_flatten(case, stable, how, rec=None):
    with impl(ID, "build"):
        dc = C.build_chain(case)
        before = dc.to_dict()
        top_meta = dict(dc.top_level_decay().metadata)
    S = {"list": list, "tuple": tuple, "set": set}[how](stable)
    with impl(ID, "flatten"):
        fl = dc.flatten(stable_particles=S) if stable or how != "list" else dc.flatten()
        got_fs = Counter(dict(fl.top_level_decay().daughters.items()))
        got_bf = fl.bf
        ndec = len(fl.decays)
        got_meta = dict(fl.top_level_decay().metadata)
        mother = fl.mother
        vis_after = dc.visible_bf  # on the same object, after flatten(S): still the product over the whole tree
        after = dc.to_dict()
    want_fs, want_bf = C.ref_flatten(case, frozenset(stable))
    got_fs = Counter({k: v for k, v in got_fs.items() if v > 0})
    if got_fs != want_fs:
        raise Mismatch("C12:leaves", f"stable={sorted(stable)}", dict(want_fs), dict(got_fs))
    if not math.isclose(got_bf, want_bf, rel_tol=1e-9, abs_tol=0.0):
        raise Mismatch("C12:bf", f"stable={sorted(stable)}", want_bf, got_bf)
    if ndec != 1 or mother != case["mother"] or list(fl.decays) != [case["mother"]]:
        raise Mismatch("C12:sub-decays-left", "the flattened chain must have exactly the top-level decay", [case["mother"]], list(fl.decays))
    if got_meta != top_meta:
        raise Mismatch("C12:metadata", "top-level model information", top_meta, got_meta)
    if before != after:
        raise Mismatch("C12:input-mutated", "the original chain changed", before, after)
    full_bf = want_bf if not stable else C.ref_flatten(case, frozenset())[1]
    if not math.isclose(vis_after, full_bf, rel_tol=1e-9, abs_tol=0.0):
        raise Mismatch("C12:visible_bf", f"visible_bf queried after flatten(stable={sorted(stable)}) on the same chain", full_bf, vis_after)


def nontrivial(case):
    t = C.ref_tree(case)
    n = len(case["decays"])
    mult = any(ds.count(d) >= 2 for m, _, ds, _ in case["decays"] for d in ds if d in {x[0] for x in case["decays"]})
    return n >= 3 and (C.tree_depth(t) >= 3 or mult)


def perms(n):
    allp = list(itertools.permutations(range(n)))
    if len(allp) <= 24:
        return allp
    step = len(allp) // 20
    return allp[::step][:20]


def enum_unit(n, max_mult, second, rec, slice_=None):
    count = nt = 0
    for k, shape in enumerate(C.enum_shapes(n, max_mult, second)):
        if slice_ is not None and k % slice_[1] != slice_[0]:
            continue
        names = [d[0] for d in shape["decays"]]
        isnt = nontrivial(shape)
        for perm in perms(n):
            case = {"mother": shape["mother"], "decays": [shape["decays"][i] for i in perm]}
            for r in range(len(names)):
                for sub in itertools.combinations(names[1:], r):
                    try:
                        check_flatten(case, list(sub), "list")
                    except Mismatch as m:
                        m.case = {"chain": case, "stable": list(sub), "as": "list"}
                        raise
                    count += 1
                    nt += isnt
        if len(rec.samples) < 2 and isnt:
            rec.samples.append({"chain": shape, "descriptor": C.build_chain(shape).to_string()})
    rec.bulk(count, nt, {f"enum-n{n}-mult{max_mult}{'-2nd-parent' if second else ''}": count})
    rec.exhaustive.append(f"shapes n={n} mult<={max_mult}{' +second parent' if second else ''} x permutations x stable subsets")


meta_strategy = st.dictionaries(meta_key, json_val, max_size=3)


@st.composite
def gen_case(draw):
    c = draw(C.chain_case(max_decaying=12, max_daughters=4, max_mult=3, meta=meta_strategy))
    names = [d[0] for d in c["decays"] if d[0] != c["mother"]]
    stable = draw(st.lists(st.sampled_from(names), unique=True, max_size=len(names))) if names else []
    # also names that are not decaying particles at all
    if draw(st.integers(0, 3)) == 0:
        stable = stable + ["not-in-chain"]
    return {"chain": c, "stable": stable, "as": draw(st.sampled_from(("list", "tuple", "set")))}


def check_gen(case, rec):
    check_flatten(case["chain"], case["stable"], case["as"])
    c = case["chain"]
    decaying = {d[0] for d in c["decays"]}
    occ = Counter(d for _, _, ds, _ in c["decays"] for d in set(ds) if d in decaying)
    classes = ["S-as-" + case["as"], "n-decaying-%d" % min(12, len(decaying))]
    if any(v >= 2 for v in occ.values()):
        classes.append("particle-below-several-parents")
    if case["stable"]:
        classes.append("stable-set-nonempty")
    rec.case(case, nontrivial(c), classes, sample=lambda: {"chain": c, "stable": case["stable"]})


def replay(case, rec):
    check_flatten(case["chain"], case["stable"], case.get("as", "list"))
    rec.case(case, nontrivial(case["chain"]))


def units(tier, seed):
    u = []
    quick = tier == "quick"
    for n in (1, 2, 3):
        u.append({"name": f"enum-n{n}", "kind": "enum", "n": n, "mult": 3, "second": True})
    for k in range(2):
        u.append({"name": f"enum-n4-{k}", "kind": "enum", "n": 4, "mult": 3, "second": True, "slice": [k, 2]})
    for k in range(4):
        u.append({"name": f"enum-n5-{k}", "kind": "enum", "n": 5, "mult": 3, "second": False, "slice": [k, 4]})
    if not quick:
        for k in range(16):
            u.append({"name": f"enum-n6-{k:02d}", "kind": "enum", "n": 6, "mult": 3, "second": False, "slice": [k, 16]})
    for k in range(7):
        u.append({"name": f"hyp{k:02d}", "kind": "hyp", "n": 400 if quick else 5000})
    return u


def run_unit(unit, seed, rec, tier):
    if unit["kind"] == "enum":
        enum_unit(unit["n"], unit["mult"], unit["second"], rec, unit.get("slice"))
    else:
        hyp_run(rec, gen_case(), check_gen, unit["n"], seed)

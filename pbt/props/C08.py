"""C08 -- copied and derived tables are independent; queries never change the parser.

Hypothesis rule-based state machine: one long-lived parser, arbitrary interleavings of the public
queries with in-place mutation of what they return, compared after every step with the snapshot
of a freshly parsed instance."""
from __future__ import annotations

import contextlib
import io
import warnings

from hypothesis import strategies as st
from hypothesis.stateful import RuleBasedStateMachine, initialize, invariant, rule

from .. import decgen as G
from .. import decref as R
from .. import names as N
from ..harness import Mismatch, impl, run_machine
from ..snapshot import compare_tables, diff_snapshots, make_parser, snapshot

ID = "C08"
LEVEL = "exploration"
RULE = (
    "Hypothesis RuleBasedStateMachine. Initial state: a generated file with an acyclic set of Decay blocks over real "
    "particle names and aliases using Define'd parameters, ModelAlias'd models and (1 in 3) user-registered models, plus CopyDecay and CDecay statements (the complete "
    "table set incl. copies/conjugates is kept acyclic); one long-lived parser and the snapshot of a separate fresh instance. "
    "Rules (<=30 steps): list_decay_modes, print_decay_modes with drawn options, build_decay_chains with drawn stable sets, "
    "expand_decay_modes, every dict_*/list_*/get_* query, global_photos_flag, repr, list_decay_mother_names, decay-mode "
    "details, each optionally followed by in-place mutation (recursively) of the returned value, and parse() again -- with the "
    "default, or with charge-conjugate decays explicitly on or off (the fresh instance it is compared with is parsed the same way). After every step snapshot(parser) must equal the fresh snapshot, and the answer of every query with arguments must equal that of a newly parsed instance; after every (re)parse the tables must equal "
    "the reference (copy semantics) and the Tree/Token objects of a derived table must be disjoint from its source's. "
    "Non-trivial: a history with >=1 mutation followed by >=2 further steps on a file with >=1 copied or conjugated table."
)
ASSUMPTIONS = ["_parsed_decays (private) is read, never written, for the object-disjointness invariant only"]

DICT_QUERIES = ("dict_aliases", "dict_charge_conjugates", "dict_definitions", "dict_decays2copy", "list_charge_conjugate_decays",
                "get_particle_property_definitions", "dict_pythia_definitions", "dict_jetset_definitions", "dict_lineshape_settings",
                "list_lineshapePW_definitions", "dict_model_aliases", "list_decay_mother_names")


@st.composite
def c08_file(draw):
    selfc, paired, unknown = N.evtgen_classes()
    n = draw(st.integers(2, 6))
    owners = draw(st.lists(st.sampled_from(paired), min_size=n, max_size=n, unique=True))
    owners = [o for i, o in enumerate(owners) if N.ref_conj(o) not in owners[:i]]
    n = len(owners)
    stable = draw(st.lists(st.sampled_from(paired + selfc), min_size=3, max_size=5, unique=True))
    stable = [s for s in stable if s not in owners and N.ref_conj(s) not in owners] or ["gamma"]
    stmts = [{"k": "define", "n": "dm", "v": draw(N.num_literal())}, {"k": "define", "n": "x_s", "v": draw(N.num_literal())}]
    # aliases (used as daughters below; some also decay through a CopyDecay of their own)
    for i in range(draw(st.integers(0, 2))):
        stmts.append({"k": "alias", "a": f"Al{i}_x", "p": draw(st.sampled_from(stable))})
        stable = stable + [f"Al{i}_x"]
    stmts.append({"k": "modelalias", "n": "MA", "model": draw(st.sampled_from(N.MODELS)),
                  "params": [{"t": "word", "v": "dm"}, {"t": "num", "v": "1.5"}]})
    copies = []
    for i in range(draw(st.integers(0, 2))):
        src = draw(st.integers(0, n - 1))
        copies.append((f"MyCopy{i}", src))
    for i, m in enumerate(owners):
        # lower-ranked owners, copies of lower-ranked owners, and conjugates of lower-ranked owners (which get a table
        # only through CDecay, i.e. only when charge-conjugate decays are included)
        lower = owners[i + 1:] + [c for c, src in copies if src > i] + [N.ref_conj(o) for o in owners[i + 1:]]
        lines = []
        for _ in range(draw(st.integers(0, 3))):
            ds = []
            for _ in range(draw(st.integers(1, 3))):
                d = draw(st.sampled_from(lower)) if lower and draw(st.integers(0, 2)) > 0 else draw(st.sampled_from(stable))
                ds.append(d)
                if draw(st.integers(0, 4)) == 0:
                    ds.append(d)
            use_alias = draw(st.integers(0, 3)) == 0
            lines.append({"bf": draw(N.bf_literal()), "d": ds, "photos": draw(st.integers(0, 3)) == 0,
                          "model": "MA" if use_alias else draw(st.sampled_from(N.MODELS[:30])), "alias": use_alias,
                          "params": [] if use_alias else draw(G.params_list(("dm", "x_s"), 3))})
        stmts.append({"k": "decay", "m": m, "lines": lines})
    for c, src in copies:
        stmts.append({"k": "copydecay", "new": c, "old": owners[src]})
        if draw(st.booleans()):
            stmts.append({"k": "chargeconj", "a": c, "b": "anti-" + c})
            if draw(st.booleans()):
                stmts.append({"k": "cdecay", "x": "anti-" + c})
    for o in draw(st.lists(st.sampled_from(owners), max_size=3, unique=True)):
        stmts.append({"k": "cdecay", "x": N.ref_conj(o)})
    if draw(st.sampled_from((False, False, True))):
        # a CDecay for a name that has a Decay block of its own: ignored (with a warning), whatever the switch says
        stmts.append({"k": "cdecay", "x": draw(st.sampled_from(owners))})
    if draw(st.booleans()):
        stmts.append(draw(G.inert_statement(stable, kinds=("particle",))))  # nested values behind get_particle_property_definitions()
    if draw(st.booleans()):
        stmts.append(draw(G.inert_statement(stable, kinds=("pythia", "jetset", "ls", "lspw", "photos", "particle"))))
    stmts = list(draw(st.permutations(stmts)))
    f = {"stmts": stmts, "layout": [], "crlf": False, "end": False}
    # optionally a user-registered model (registered before the first parse) is used by some lines
    if draw(st.sampled_from((False, False, True))):
        f["extra_models"] = ["USERMODEL", "PHSP-X"]
        for s_ in stmts:
            if s_["k"] == "decay":
                for ln in s_["lines"]:
                    if not ln["alias"] and draw(st.sampled_from((False, True))):
                        ln["model"] = draw(st.sampled_from(f["extra_models"]))
    # keep the complete table set (copies and conjugates included) acyclic
    if not acyclic(f):
        f["stmts"] = [s for s in stmts if s["k"] != "cdecay"]
    return f


def acyclic(f):
    tabs = {m: ls for m, _, ls in R.all_tables(f)}
    state = {}

    def visit(m):
        if state.get(m) == 1:
            return False
        if state.get(m) == 2:
            return True
        state[m] = 1
        for ln in tabs[m]:
            for d in ln["fs"]:
                if d in tabs and not visit(d):
                    return False
        state[m] = 2
        return True

    return all(visit(m) for m in tabs)


def mutate(x, depth=0):
    """In-place, recursive modification of a returned structure."""
    if isinstance(x, list):
        for v in list(x):
            mutate(v, depth + 1)
        if x:
            x[0] = "__mutated__"
        x.append("__mutated__")
        x.reverse()
    elif isinstance(x, dict):
        for v in list(x.values()):
            mutate(v, depth + 1)
        for k in list(x.keys()):
            x[k] = "__mutated__"
        x["__mutated__"] = 1
    # (nothing is cleared at the end: an emptied structure could pass for a legitimately empty answer)


def _plain(x):
    from ..snapshot import _freeze

    return _freeze(x)


def object_ids(tree):
    from lark import Token, Tree

    out = set()
    stack = [tree]
    while stack:
        t = stack.pop()
        out.add(id(t))
        if isinstance(t, Tree):
            stack.extend(t.children)
        elif isinstance(t, Token):
            pass
    return out


class State:
    """The history interpreter shared by the state machine and by replay."""

    def __init__(self, f):
        self.f = f
        self.text = G.render(f)
        self.exp = R.all_tables(f)
        self.switch = True
        with warnings.catch_warnings():
            warnings.simplefilter("ignore")
            fresh_p = make_parser(self.text, ID, extra_models=tuple(f.get("extra_models", ())))
            self.mothers = [m for m, _, _ in self.exp]
            tabs = {}
            for m, _, ls in self.exp:
                tabs.setdefault(m, ls)
            # chain building / expansion only where the independently computed unfolding is small
            self.safe = [m for m in tabs if R.count_nodes(tabs, m) <= 400 and R.count_paths(tabs, m) <= 200]
            self.fresh = snapshot(fresh_p, ID, chain_mothers=self.safe, expand_mothers=self.safe)
            # a freshly parsed instance with charge-conjugate decays switched off (for histories that re-parse that way)
            self.exp_off = R.all_tables(f, include_cc=False)
            off_names = {m for m, _, _ in self.exp_off}
            self.safe_off = [m for m in self.safe if m in off_names]
            fresh_off = make_parser(self.text, ID, extra_models=tuple(f.get("extra_models", ())), include_cc=False)
            self.fresh_off = snapshot(fresh_off, ID, chain_mothers=self.safe_off, expand_mothers=self.safe_off)
            self.p = make_parser(self.text, ID, extra_models=tuple(f.get("extra_models", ())))
        self.names = sorted({d for _, _, ls in self.exp for ln in ls for d in ln["fs"]} | set(self.mothers))
        self.history = []
        self.check_structure()

    def check_structure(self):
        with warnings.catch_warnings():
            warnings.simplefilter("ignore")
            compare_tables(ID, self.p, self.exp if self.switch else self.exp_off)
        if not hasattr(self.p, "_parsed_decays"):
            return  # internal representation changed: the object-sharing invariant cannot be read (not a violation)
        trees = {}
        for t in self.p._parsed_decays:
            trees.setdefault(t.children[0].children[0].value, t)
        ccd = R.cc_dict(self.f)
        cps = R.copies(self.f)
        for m, origin, _ in (self.exp if self.switch else self.exp_off):
            src = cps.get(m) if origin == "copy" else (R.conj_name(m, ccd) if origin == "conj" else None)
            if src is None or src not in trees or m not in trees:
                continue
            shared = object_ids(trees[m]) & object_ids(trees[src])
            if shared:
                raise Mismatch("C08:shared-state", f"table {m!r} ({origin}) shares {len(shared)} Tree/Token objects with its source {src!r}")

    def step(self, s):
        self.history.append(s)
        p = self.p
        kind = s["op"]
        mothers = self.mothers if self.switch else [m for m, _, _ in self.exp_off]
        safe = self.safe if self.switch else self.safe_off
        mo = mothers[s.get("m", 0) % len(mothers)] if mothers else None
        if kind in ("chains", "expand"):
            mo = safe[s.get("m", 0) % len(safe)] if safe else None
        with warnings.catch_warnings():
            warnings.simplefilter("ignore")
            with impl(ID, kind):
                if kind == "list_decay_modes" and mo:
                    r = p.list_decay_modes(mo)
                elif kind == "details" and mo:
                    r = [p._decay_mode_details(dm, s.get("kw", True)) for dm in p._find_decay_modes(mo)]
                elif kind == "print" and mo:
                    pbuf = io.StringIO()
                    with contextlib.redirect_stdout(pbuf):
                        try:
                            p.print_decay_modes(mo, **s["opts"])
                        except Exception:  # noqa: BLE001 -- refusals/option errors are C16's subject, not C08's
                            pass
                    self._printed = pbuf.getvalue()
                    r = None
                elif kind == "chains" and mo:
                    S = [self.names[i % len(self.names)] for i in s.get("S", [])]
                    S = {"list": list, "tuple": tuple, "set": set}[s.get("as", "list")](S)
                    r = p.build_decay_chains(mo, stable_particles=S)
                elif kind == "expand" and mo:
                    r = p.expand_decay_modes(mo)
                elif kind == "query":
                    try:
                        r = getattr(p, s["q"])()
                    except RuntimeError:
                        r = None  # repeated lineshape settings: an error both times
                elif kind == "failing":
                    # calls that are refused: they must leave nothing behind
                    for call in (lambda: p.list_decay_modes("no-such-particle~"), lambda: p.build_decay_chains("no-such-particle~"),
                                 lambda: p.expand_decay_modes("no-such-particle~"), lambda: p.print_decay_modes(mo or "x", normalize=True, scale=0.5),
                                 lambda: p.print_decay_modes(mo or "x", scale=7.0), lambda: p.list_decay_modes("no-such-name", pdg_name=True)):
                        try:
                            with contextlib.redirect_stdout(io.StringIO()):
                                call()
                        except Exception:  # noqa: BLE001 -- the refusal itself is what is expected here
                            pass
                    r = None
                elif kind == "photos":
                    r = p.global_photos_flag()
                elif kind == "repr":
                    r = (repr(p), str(p), p.number_of_decays)
                elif kind == "reparse":
                    sw = s.get("switch")
                    if sw is None:
                        p.parse()  # the default: charge-conjugate decays included, whatever an earlier call asked for
                    else:
                        p.parse(include_ccdecays=sw)
                    self.switch = True if sw is None else bool(sw)
                    r = None
                else:
                    r = None
            # queries with arguments: the answer itself must be the one a freshly parsed instance gives
            if kind in ("chains", "expand", "print", "list_decay_modes") and mo:
                fp = make_parser(self.text, ID, extra_models=tuple(self.f.get("extra_models", ())), include_cc=self.switch)
                with impl(ID, kind + "(fresh)"):
                    if kind == "chains":
                        want = fp.build_decay_chains(mo, stable_particles=S)
                    elif kind == "expand":
                        want = fp.expand_decay_modes(mo)
                    elif kind == "list_decay_modes":
                        want = fp.list_decay_modes(mo)
                    else:
                        buf = io.StringIO()
                        with contextlib.redirect_stdout(buf):
                            try:
                                fp.print_decay_modes(mo, **s["opts"])
                            except Exception:  # noqa: BLE001
                                pass
                        want, r = buf.getvalue(), self._printed
                if _plain(r) != _plain(want):
                    raise Mismatch(f"C08:answer:{kind}", f"after {self.history[:-1][-3:]}: {kind}({mo!r}, {s.get('S', s.get('opts', ''))}) differs from a fresh instance",
                                   str(_plain(want))[:600], str(_plain(r))[:600])
                if kind == "print":
                    r = None
            if s.get("mutate") and r is not None:
                mutate(r)
        if kind == "reparse":
            self.check_structure()
        self.compare()

    def compare(self):
        with warnings.catch_warnings():
            warnings.simplefilter("ignore")
            safe = self.safe if self.switch else self.safe_off
            now = snapshot(self.p, ID, chain_mothers=safe, expand_mothers=safe)
        d = diff_snapshots(self.fresh if self.switch else self.fresh_off, now)
        if d is not None:
            raise Mismatch(f"C08:snapshot:{d[0]}", f"after {self.history[-1] if self.history else 'init'}: query {d[0]} differs from a fresh instance: {d[1]}")

    def case(self):
        return {"file": self.f, "steps": list(self.history)}

    def nontrivial(self):
        derived = any(o != "decay" for _, o, _ in self.exp)
        muts = [i for i, s in enumerate(self.history) if s.get("mutate")]
        return derived and bool(muts) and len(self.history) - muts[0] - 1 >= 2


print_opts = st.fixed_dictionaries({"print_model": st.booleans(), "display_photos_keyword": st.booleans(), "ascending": st.booleans(),
                                    "normalize": st.booleans(), "scale": st.sampled_from((None, None, 0.5, 1.0, 2.0))})


def make_machine(rec, shrink_budget_s=40.0):
    import time

    clock = {"t_fail": None, "stop": False}

    def failed():
        now = time.time()
        if clock["t_fail"] is None:
            clock["t_fail"] = now
        elif now - clock["t_fail"] > shrink_budget_s:
            clock["stop"] = True  # cut shrinking short (never a verdict): later runs become no-ops

    class Machine(RuleBasedStateMachine):
        def __init__(self):
            super().__init__()
            self.s = None

        def _do(self, step):
            if clock["stop"] or self.s is None:
                return
            try:
                self.s.step(step)
            except Mismatch as m:
                f = rec.match_known(m, self.s.case())
                if f is not None:
                    rec.note_known(f, self.s.case(), m, self.s.text)
                    return
                rec.fail(m, self.s.case(), self.s.text + "\nsteps: " + repr(self.s.history))
                failed()
                raise

        @initialize(f=c08_file())
        def init(self, f):
            if clock["stop"]:
                return
            try:
                self.s = State(f)
            except Mismatch as m:
                rec.fail(m, {"file": f, "steps": []}, G.render(f))
                failed()
                raise

        @rule(m=st.integers(0, 9), mut=st.booleans())
        def list_decay_modes(self, m, mut):
            self._do({"op": "list_decay_modes", "m": m, "mutate": mut})

        @rule(m=st.integers(0, 9), kw=st.booleans(), mut=st.booleans())
        def details(self, m, kw, mut):
            self._do({"op": "details", "m": m, "kw": kw, "mutate": mut})

        @rule(m=st.integers(0, 9), opts=print_opts)
        def print_modes(self, m, opts):
            self._do({"op": "print", "m": m, "opts": opts})

        @rule(m=st.integers(0, 9), S=st.lists(st.integers(0, 30), max_size=4), how=st.sampled_from(("list", "tuple", "set")), mut=st.booleans())
        def chains(self, m, S, how, mut):
            self._do({"op": "chains", "m": m, "S": S, "as": how, "mutate": mut})

        @rule(m=st.integers(0, 9), mut=st.booleans())
        def expand(self, m, mut):
            self._do({"op": "expand", "m": m, "mutate": mut})

        @rule(q=st.sampled_from(DICT_QUERIES), mut=st.booleans())
        def query(self, q, mut):
            self._do({"op": "query", "q": q, "mutate": mut})

        @rule()
        def photos(self):
            self._do({"op": "photos"})

        @rule(m=st.integers(0, 9))
        def failing_calls(self, m):
            self._do({"op": "failing", "m": m})

        @rule()
        def rep(self):
            self._do({"op": "repr"})

        @rule(sw=st.sampled_from((None, None, True, False)))
        def reparse(self, sw):
            self._do({"op": "reparse", "switch": sw})

        @rule(first=st.sampled_from((False, True)), m=st.integers(0, 9))
        def switch_cycle(self, first, m):
            """Re-parse one way, ask for chains, re-parse the other way (state tied to the first setting must not survive)."""
            self._do({"op": "reparse", "switch": first})
            self._do({"op": "chains", "m": m, "S": [], "as": "list", "mutate": False})
            self._do({"op": "reparse", "switch": None if first is False else False})
            self._do({"op": "expand", "m": m, "mutate": False})
            self._do({"op": "reparse", "switch": None})

        def teardown(self):
            if self.s is not None:
                st_ = self.s
                classes = ["steps-%d" % min(30, 5 * (len(st_.history) // 5))]
                ops = {h["op"] for h in st_.history}
                classes += ["op-" + o for o in sorted(ops)]
                if any(h.get("mutate") for h in st_.history):
                    classes.append("has-mutation")
                if any(o == "copy" for _, o, _ in st_.exp):
                    classes.append("file-has-copy")
                if any(o == "conj" for _, o, _ in st_.exp):
                    classes.append("file-has-conjugate")
                if st_.f.get("extra_models"):
                    classes.append("file-uses-registered-models")
                rec.case(st_.case(), st_.nontrivial(), classes, sample=lambda: {"text": st_.text, "steps": st_.history})

    return Machine


def replay(case, rec):
    s = State(case["file"])
    for stp in case["steps"]:
        s.step(dict(stp))
    rec.case(case, s.nontrivial())


def units(tier, seed):
    n = 30 if tier == "quick" else 1000
    return [{"name": f"machine{k:02d}", "kind": "machine", "n": n} for k in range(16)]


def run_unit(unit, seed, rec, tier):
    run_machine(rec, make_machine(rec), unit["n"], 30, seed)

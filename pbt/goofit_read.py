"""Readers for the generated GooFit code (C18, C19): a regex/bracket reader that understands both
the C++ and the Python spelling of spin-factor, lineshape and amplitude entries, a reader of the
C++ declarations, and an executor of the Python text against a recording stand-in for `goofit`."""
from __future__ import annotations

import re

_SF = re.compile(r'SpinFactor\(\s*"SF"\s*,\s*SF_4Body(?:::|\.)(\w+)\s*,\s*(\d+)\s*,\s*(\d+)\s*,\s*(\d+)\s*,\s*(\d+)\s*\)')
_LS = re.compile(r"Lineshapes(?:::|\.)(RBW|GSpline|kMatrix|FOCUS)\(")


def split_args(s):
    """Split on commas at bracket depth 0, outside double quotes."""
    out, cur, d, q = [], [], 0, False
    for c in s:
        if c == '"':
            q = not q
        if not q:
            if c in "([{":
                d += 1
            elif c in ")]}":
                d -= 1
            elif c == "," and d == 0:
                out.append("".join(cur).strip())
                cur = []
                continue
        cur.append(c)
    if "".join(cur).strip():
        out.append("".join(cur).strip())
    return out


def _call_args(text, start):
    """text[start] is just after '('; return (args string, index after the closing paren)."""
    d, q, i = 1, False, start
    while i < len(text):
        c = text[i]
        if c == '"':
            q = not q
        elif not q:
            if c == "(":
                d += 1
            elif c == ")":
                d -= 1
                if d == 0:
                    return text[start:i], i + 1
        i += 1
    raise ValueError("unbalanced call")


def unq(s):
    s = s.strip()
    return s[1:-1] if len(s) >= 2 and s[0] == '"' and s[-1] == '"' else s


def spin_factors(text):
    """-> list of (enum name, (i, j, k, l)) in order of appearance."""
    return [(m.group(1), tuple(int(m.group(i)) for i in range(2, 6))) for m in _SF.finditer(text)]


def lineshapes(text):
    """-> list of dicts {kind, name, M, W, L, mass, extra...} in order of appearance."""
    out = []
    for m in _LS.finditer(text):
        kind = m.group(1)
        args, _ = _call_args(text, m.end())
        a = split_args(args)
        if kind == "RBW":
            d = {"name": unq(a[0]), "M": a[1], "W": a[2], "L": a[3], "mass": a[4], "ff": a[5]}
        elif kind == "GSpline":
            d = {"name": unq(a[0]), "M": a[1], "W": a[2], "L": a[3], "mass": a[4], "ff": a[5], "radius": a[6], "array": a[7],
                 "spline": [x.strip() for x in re.sub(r"^[\w:\.]*\(|\)$", "", a[8].strip()).strip("()").split(",")]}
        elif kind == "kMatrix":
            d = {"name": unq(a[0]), "pterm": a[1], "is_pole": a[2].lower(), "symbols": a[3:9], "M": a[9], "W": a[10], "L": a[11], "mass": a[12],
                 "ff": a[13], "radius": a[14]}
        else:
            d = {"name": unq(a[0]), "mod": re.split(r"::|\.", a[1])[-1], "M": a[2], "W": a[3], "L": a[4], "mass": a[5], "ff": a[6], "radius": a[7]}
        d["kind"] = kind
        d["ff"] = re.split(r"::|\.", d["ff"])[-1]
        out.append(d)
    return out


_AMP_CPP = re.compile(r'new Amplitude\{\s*"([^"]*)"\s*,\s*mkvar\("([^"]*)"\s*,\s*(true|false)\s*,\s*([^,]+),\s*([^)]+)\)\s*,\s*'
                      r'mkvar\("([^"]*)"\s*,\s*(true|false)\s*,\s*([^,]+),\s*([^)]+)\)\s*,\s*line_factor_list\.back\(\)\s*,\s*'
                      r'spin_factor_list\.back\(\)\s*,\s*(\d+)\s*\}\)')
_AMP_PY = re.compile(r'Amplitude\(\s*"([^"]*)"\s*,\s*Variable\("([^"]*)"\s*,\s*([^)]*)\)\s*,\s*Variable\("([^"]*)"\s*,\s*([^)]*)\)\s*,\s*'
                     r'line_factor_list\[-1\]\s*,\s*spin_factor_list\[-1\]\s*,\s*(\d+)\s*\)\)')


def amplitudes(text):
    """-> list of dicts {name, r_name, i_name, fixed, re, im, re_err, im_err, n}."""
    out = []
    for m in _AMP_CPP.finditer(text):
        out.append({"name": m.group(1), "r_name": m.group(2), "i_name": m.group(6), "fixed": m.group(3) == "true", "fixed_i": m.group(7) == "true",
                    "re": float(m.group(4)), "re_err": float(m.group(5)), "im": float(m.group(8)), "im_err": float(m.group(9)), "n": int(m.group(10))})
    for m in _AMP_PY.finditer(text):
        ra = [x.strip() for x in m.group(3).split(",")]
        ia = [x.strip() for x in m.group(5).split(",")]
        out.append({"name": m.group(1), "r_name": m.group(2), "i_name": m.group(4), "fixed": len(ra) == 1, "fixed_i": len(ia) == 1,
                    "re": float(ra[0]), "re_err": float(ra[1]) if len(ra) > 1 else None, "im": float(ia[0]), "im_err": float(ia[1]) if len(ia) > 1 else None,
                    "n": int(m.group(6)), "limits": [ra[2:], ia[2:]]})
    return out


# ---------------------------------------------------------------------------------------------
# whole C++ output -> model record
# ---------------------------------------------------------------------------------------------

_CONSTEXPR = re.compile(r"constexpr\s+fptype\s+(\w+)\s*\{\s*([^}]*?)\s*\}\s*;")
_VARIABLE = re.compile(r'^\s*Variable\s+(\w+)\s*\{\s*("[^"]*")\s*,\s*([^}]*?)\s*\}\s*;', re.M)
_VECTOR = re.compile(r"std::vector<Variable>\s+(\w+)\s*\{\{(.*?)\}\};", re.S)
_EVENT = re.compile(r"Event type:\s*(.*)")
_MASSES = re.compile(r"DK3P_DI\.particle_masses\s*=\s*[\{\(]+([^\}\)]*)[\}\)]+")


def cpp_model(text):
    """Record of a complete C++ output (after the header comment)."""
    body = text.split("*/", 1)[1] if "*/" in text else text
    rec = {"constants": {}, "variables": {}, "arrays": {}, "order": []}
    for m in _CONSTEXPR.finditer(body):
        rec["constants"][m.group(1)] = float(m.group(2))
        rec["order"].append((m.start(), "decl", m.group(1)))
    for m in _VARIABLE.finditer(body):
        vals = [v.strip() for v in m.group(3).split(",") if v.strip()]
        rec["variables"][m.group(1)] = {"label": unq(m.group(2)), "value": float(vals[0]), "error": float(vals[1]) if len(vals) > 1 else None}
        rec["order"].append((m.start(), "decl", m.group(1)))
    for m in _VECTOR.finditer(body):
        rec["arrays"][m.group(1)] = [x.strip() for x in m.group(2).split(",") if x.strip()]
        rec["order"].append((m.start(), "decl", m.group(1)))
    ev = _EVENT.search(body)
    rec["event"] = ev.group(1).strip() if ev else None
    pm = _MASSES.search(body)
    rec["particle_masses"] = [x.strip() for x in pm.group(1).split(",")] if pm else None
    rec["spin_factors"] = spin_factors(body)
    rec["lineshapes"] = lineshapes(body)
    rec["amplitudes"] = amplitudes(body)
    return rec, body


def split_amplitude_blocks(body, marker):
    """Split the 'Lines' section into per-amplitude blocks ('    // Line n' / '# Line n')."""
    parts = re.split(marker, body)
    return parts[1:]


# ---------------------------------------------------------------------------------------------
# Python output executed against the recording stub
# ---------------------------------------------------------------------------------------------

def run_python_output(text, preseed=()):
    """exec() the generated Python text with pbt/stub on sys.path as `goofit`; returns the stub's
    recording and the namespace.  Raises whatever the generated code raises (NameError = a symbol
    used before being declared)."""
    import importlib
    import sys
    from pathlib import Path

    stubdir = str(Path(__file__).resolve().parent / "stub")
    sys.path.insert(0, stubdir)
    try:
        sys.modules.pop("goofit", None)
        goofit = importlib.import_module("goofit")
        goofit._reset()
        ns = {"__name__": "__generated__"}
        for k in preseed:
            ns[k] = goofit.Variable(k, 0.0)
        code = compile(text, "<generated goofit python>", "exec")
        exec(code, ns)  # noqa: S102 -- the text under test is the library's own output
        return goofit._recording(), ns
    finally:
        sys.path.remove(stubdir)
        sys.modules.pop("goofit", None)

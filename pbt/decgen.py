"""`.dec` abstract syntax (plain JSON-able dicts), Hypothesis strategies and a renderer whose
layout choices are part of the drawn case (DESIGN.md 3.2).

File  := {"stmts": [Stmt], "layout": [int], "crlf": bool, "end": bool}
Stmt  := {"k": "decay", "m": str, "lines": [Line]}
       | {"k": "alias", "a", "p"} | {"k": "chargeconj", "a", "b"} | {"k": "define", "n", "v"}
       | {"k": "modelalias", "n", "model", "params": [Param]} | {"k": "copydecay", "new", "old"}
       | {"k": "cdecay", "x"} | {"k": "particle", "n", "mass", "width": str|None}
       | {"k": "pythia", "cmd", "module", "param", "val"} | {"k": "jetset", "name", "v"}
       | {"k": "ls", "kind", "p"} | {"k": "bw", "p", "v"} | {"k": "masslimit", "kind", "p", "v"}
       | {"k": "incfactor", "kind", "p", "yn"} | {"k": "lspw", "m", "d1", "d2", "i"}
       | {"k": "photos", "yes": bool}
Line  := {"bf": str, "d": [str], "photos": bool, "model": str, "alias": bool, "params": [Param]}
Param := {"t": "num", "v": str} | {"t": "word", "v": str}

Numbers are kept as the literal text; their value is float(text).
"""
from __future__ import annotations

from hypothesis import strategies as st

from . import names as N

COMMENTS = (
    "# a comment",
    "# form\x0cfeed Alias Xff Yff",
    "# ls\u2028Alias Als Bls",
    "# nel\x85 Define qnel 1.0",
    "# vt\x0b; fs\x1c gs\x1d rs\x1e Decay Zq",
    "# caf\u00e9 \u03c0+ \u2192 \u03bc+ \u03bd",
    "#",
    "# Decay X ; End Enddecay",
    "#; 1.0 a b PHSP;",
    "#\tyesPhotos CDecay q",
    "# Define dm 0.5 # nested",
)
INDENTS = ("", "  ", "\t", "    ", " \t")
SEPS = (" ", "  ", "\t", " \t ", "   ")
SEMIS = (";", " ;", ";;", "; ;", " ;  ;;")


class _Layout:
    """Consumes the case's layout integers cyclically; an empty list means the plain layout."""

    def __init__(self, ints):
        self.ints = list(ints)
        self.i = 0

    def nxt(self, n):
        if not self.ints:
            return 0
        v = self.ints[self.i % len(self.ints)]
        self.i += 1
        return v % n

    def pick(self, seq, plain_bias=2):
        # values >= len(seq) fall back to the plain choice so that plain stays frequent
        v = self.nxt(len(seq) + plain_bias)
        return seq[v] if v < len(seq) else seq[0]


def param_text(p):
    return p["v"]


def statement_tokens(s):
    """-> list of physical 'logical lines'; each is (tokens, kind) where kind tells the renderer
    which extra layout freedoms exist ('plain' | 'decayline' | 'modelalias')."""
    k = s["k"]
    if k == "decay":
        out = [(["Decay", s["m"]], "plain")]
        for ln in s["lines"]:
            head = [ln["bf"], *ln["d"]] + (["PHOTOS"] if ln["photos"] else []) + [ln["model"]]
            out.append(((head, [param_text(p) for p in ln["params"]], ln.get("alias", False)), "decayline"))
        out.append((["Enddecay"], "plain"))
        return out
    if k == "alias":
        return [(["Alias", s["a"], s["p"]], "plain")]
    if k == "chargeconj":
        return [(["ChargeConj", s["a"], s["b"]], "plain")]
    if k == "define":
        return [(["Define", s["n"], s["v"]], "plain")]
    if k == "modelalias":
        return [((["ModelAlias", s["n"], s["model"]], [param_text(p) for p in s["params"]], False), "decayline")]
    if k == "copydecay":
        return [(["CopyDecay", s["new"], s["old"]], "plain")]
    if k == "cdecay":
        return [(["CDecay", s["x"]], "plain")]
    if k == "particle":
        return [(["Particle", s["n"], s["mass"]] + ([s["width"]] if s.get("width") is not None else []), "plain")]
    if k == "pythia":
        return [([s["cmd"], s["module"], ":", s["param"], "=", s["val"]], "glue")]
    if k == "jetset":
        return [(["JetSetPar", s["name"], "=", s["v"]], "glue")]
    if k == "ls":
        return [([s["kind"], s["p"]], "plain")]
    if k == "bw":
        return [(["BlattWeisskopf", s["p"], s["v"]], "plain")]
    if k == "masslimit":
        return [([s["kind"], s["p"], s["v"]], "plain")]
    if k == "incfactor":
        return [([s["kind"], s["p"], s["yn"]], "plain")]
    if k == "lspw":
        return [(["SetLineshapePW", s["m"], s["d1"], s["d2"], s["i"]], "plain")]
    if k == "photos":
        return [(["yesPhotos" if s["yes"] else "noPhotos"], "plain")]
    raise ValueError(k)


def render(f, plain=False):
    """Render the file AST to text.  With plain=True the layout integers are ignored."""
    L = _Layout([] if plain else f.get("layout", []))
    nl = "\r\n" if (f.get("crlf") and not plain) else "\n"
    out = []

    def filler():
        v = L.nxt(8)
        if v == 5:
            out.append("")
        elif v == 6:
            out.append(L.pick(INDENTS) + L.pick(COMMENTS))
        elif v == 7:
            out.append(L.pick(INDENTS))
            out.append(L.pick(COMMENTS))

    def trailing():
        v = L.nxt(7)
        if v == 5:
            return L.pick(SEPS) + L.pick(COMMENTS)
        if v == 6:
            return L.pick(COMMENTS)
        return "" if v < 4 else L.pick(SEPS)

    for s in f["stmts"]:
        block = s["k"] == "decay"
        for idx, (toks, kind) in enumerate(statement_tokens(s)):
            filler()
            ind = L.pick(INDENTS)
            if block and 0 < idx and kind == "decayline" and not L.ints:
                ind = "  "
            if kind == "plain":
                sep = L.pick(SEPS)
                out.append(ind + sep.join(toks) + trailing())
            elif kind == "glue":
                # tokens around ':' and '=' may be glued or spaced
                text = toks[0] + L.pick(SEPS)
                rest = toks[1:]
                g = L.nxt(3)
                glue = ("", " ", "  ")[g]
                text += glue.join(rest)
                out.append(ind + text + trailing())
            else:
                head, params, _is_alias = toks
                sep = L.pick(SEPS)
                text = ind + sep.join(head)
                for p in params:
                    v = L.nxt(10)
                    if v == 6:
                        text += "," + p
                    elif v == 7:
                        text += " , " + p
                    elif v == 8:
                        text += trailing()
                        out.append(text)
                        text = L.pick(INDENTS) + p
                    elif v == 9:
                        text += L.pick(SEPS) + "," + L.pick(SEPS) + p
                    else:
                        text += L.pick(SEPS) + p
                if params and L.nxt(12) == 11:
                    # the closing semicolon on a line of its own (only when items exist)
                    out.append(text)
                    text = L.pick(INDENTS)
                text += L.pick(SEMIS, plain_bias=4)
                out.append(text + trailing())
    filler()
    if f.get("end") and not plain:
        out.append(L.pick(INDENTS) + "End" + trailing())
        filler()
    text = nl.join(out) + nl
    if f.get("nofinal") and not plain and out and ("#" in out[-1] or out[-1].strip(" \t") == ""):
        # no line end after the last line: accepted when that line is a comment, ends in one or is blank
        # (a statement directly followed by the end of the text is refused by the grammar, DESIGN 6)
        text = text[: -len(nl)]
    return text


# ---------------------------------------------------------------------------------------------
# strategies
# ---------------------------------------------------------------------------------------------

layout_ints = st.one_of(st.just([]), st.lists(st.integers(0, 15), min_size=1, max_size=24))


@st.composite
def name_pool(draw, min_size=4, max_size=10, extra_models=()):
    """Distinct labels for one file: real EvtGen names, alias-style and synthetic ones."""
    n = draw(st.integers(min_size, max_size))
    pool = []
    seen = set()
    for _ in range(n):
        x = draw(N.any_label(extra_models))
        if x in seen:
            x = x + "_" + str(len(pool))
            if not N.safe_label(x, extra_models):
                x = "q" + x
        seen.add(x)
        pool.append(x)
    return pool


@st.composite
def params_list(draw, defined=(), max_size=12, undefined_words=True, floaty_words=True):
    n = draw(st.sampled_from((0, 0, 1, 1, 2, 3, 4, 6, 8, max_size) * 3 + (3 * max_size,)))
    n = min(n, 3 * max_size)
    out = []
    for _ in range(n):
        c = draw(st.integers(0, 9))
        if c <= 4:
            out.append({"t": "num", "v": draw(N.num_literal())})
        elif c <= 6 and defined:
            nm = draw(st.sampled_from(list(defined)))
            # a single leading minus negates; any other sign decoration makes it a different, undefined word
            pre = draw(st.sampled_from(("", "", "", "", "-", "-", "+", "--", "-+", "+-")))
            out.append({"t": "word", "v": pre + nm})
        elif undefined_words and floaty_words and draw(st.sampled_from((True, False, False, False))):
            # words that Python's float() would accept are still words of this language (LABEL, not SIGNED_NUMBER)
            out.append({"t": "word", "v": draw(st.sampled_from(("nan", "inf", "-inf", "Infinity", "+inf", "NaN", "-Infinity", "infinity", "e5", "_1", "x10")))})
        elif undefined_words:
            w = draw(N.synthetic_label(max_size=6, avoid=frozenset(defined)))
            if draw(st.integers(0, 5)) == 0 and N.safe_label("-" + w):
                w = "-" + w
            out.append({"t": "word", "v": w})
        else:
            out.append({"t": "num", "v": draw(N.num_literal())})
    return out


@st.composite
def decay_line(draw, pool, defined=(), model_aliases=(), models=N.MODELS, max_daughters=6, max_params=12):
    nd = draw(st.sampled_from((0, 1, 2, 2, 2, 3, 3, 4, 5, max_daughters) * 3 + (3 * max_daughters,)))
    nd = min(nd, 3 * max_daughters)
    d = [draw(st.sampled_from(pool)) for _ in range(nd)]
    use_alias = bool(model_aliases) and draw(st.integers(0, 3)) == 0
    if use_alias:
        model, params = draw(st.sampled_from(list(model_aliases))), []
    else:
        model = draw(st.sampled_from(models))
        params = draw(params_list(defined, max_params))
    return {
        "bf": draw(N.bf_literal()),
        "d": d,
        "photos": draw(st.integers(0, 9)) < 3,
        "model": model,
        "alias": use_alias,
        "params": params,
    }


@st.composite
def inert_statement(draw, pool, kinds=None):
    """Global declarations that do not influence decay tables (C07's subject)."""
    kinds = kinds or ("alias", "chargeconj", "particle", "pythia", "jetset", "ls", "bw", "masslimit", "incfactor", "lspw", "photos")
    k = draw(st.sampled_from(kinds))
    lab = st.sampled_from(pool)
    if k == "alias":
        return {"k": "alias", "a": draw(lab), "p": draw(lab)}
    if k == "chargeconj":
        return {"k": "chargeconj", "a": draw(lab), "b": draw(lab)}
    if k == "particle":
        return {"k": "particle", "n": draw(lab), "mass": draw(N.num_literal(nonneg=True)),
                "width": draw(N.num_literal(nonneg=True))}
    if k == "pythia":
        val = draw(st.one_of(N.num_literal(), st.sampled_from(("on", "off", "true", "Tune:ee"[:4], "x_y")), N.synthetic_label(max_size=5)))
        return {"k": "pythia", "cmd": draw(st.sampled_from(("PythiaAliasParam", "PythiaBothParam", "PythiaGenericParam"))),
                "module": draw(st.sampled_from(("ParticleDecays", "StringFlav", "Tune", "TimeShower"))),
                "param": draw(st.sampled_from(("mixB", "etaSup", "ee", "alphaSvalue", "mode"))), "val": val}
    if k == "jetset":
        return {"k": "jetset", "name": draw(st.sampled_from(("PARJ", "MSTJ", "MSTU", "PARU"))) + f"({draw(st.integers(1, 200))})",
                "v": draw(N.num_literal())}
    if k == "ls":
        return {"k": "ls", "kind": draw(st.sampled_from(("LSFLAT", "LSNONRELBW", "LSMANYDELTAFUNC"))), "p": draw(lab)}
    if k == "bw":
        return {"k": "bw", "p": draw(lab), "v": draw(N.num_literal())}
    if k == "masslimit":
        return {"k": "masslimit", "kind": draw(st.sampled_from(("ChangeMassMin", "ChangeMassMax"))), "p": draw(lab), "v": draw(N.num_literal())}
    if k == "incfactor":
        return {"k": "incfactor", "kind": draw(st.sampled_from(("IncludeBirthFactor", "IncludeDecayFactor"))), "p": draw(lab),
                "yn": draw(st.sampled_from(("yes", "no")))}
    if k == "lspw":
        return {"k": "lspw", "m": draw(lab), "d1": draw(lab), "d2": draw(lab), "i": str(draw(st.sampled_from((0, 1, 2, 3, 9, 10, 12, 100))))}
    return {"k": "photos", "yes": draw(st.booleans())}


def file_flags(draw):
    return {"layout": draw(layout_ints), "crlf": draw(st.integers(0, 5)) == 0, "end": draw(st.integers(0, 3)) == 0,
            "nofinal": draw(st.sampled_from((False,) * 4 + (True,)))}


# ---------------------------------------------------------------------------------------------
# acyclic decay-table sets (C09, C10, C15, C08)
# ---------------------------------------------------------------------------------------------

@st.composite
def table_set_file(draw, min_particles=3, max_particles=8, max_lines=4, max_daughters=4, with_aliases=True, balanced_only=True):
    """A file whose Decay blocks form an acyclic set: particles are ranked, a daughter that has a
    table always comes from a lower rank.  Includes empty blocks, repeated daughters, particles
    without tables, aliases that decay and aliases that do not."""
    from .chains import descriptor_safe

    n = draw(st.integers(min_particles, max_particles))
    deep = max_lines > 1 and draw(st.sampled_from((False,) * 11 + (True,)))
    if deep:
        n = draw(st.integers(14, 20))  # one long cascade: a table per level, nested 14-20 deep
    pool = draw(name_pool(n + 3, n + 6))
    if balanced_only:
        pool = [x for x in pool if descriptor_safe(x)]
    k = 0
    while len(pool) < n + 3:
        pool.append(f"zz{k}")
        k += 1
    owners, stable = pool[:n], pool[n:]
    stmts = []
    aliases = {}
    if with_aliases:
        targets = [t for t in N.evtgen_safe()[:400] if t not in pool]
        for x in owners + stable:
            if draw(st.integers(0, 4)) == 0:
                aliases[x] = draw(st.sampled_from(targets))
                # a name without a table may also be an alias of a particle of this file that *has* one:
                # the alias itself still has no table
                if x in stable and draw(st.sampled_from((False, True))):
                    aliases[x] = draw(st.sampled_from(owners))
                elif aliases and draw(st.sampled_from((False, False, True))):
                    aliases[x] = draw(st.sampled_from(sorted(aliases)))  # an alias of an alias (one level is resolved, not two)
                stmts.append({"k": "alias", "a": x, "p": aliases[x]})
    for i, m in enumerate(owners):
        lower = owners[i + 1:]
        if deep:
            nxt_ = [owners[i + 1]] if i + 1 < len(owners) else []
            lines = [{"bf": draw(N.bf_literal()), "d": nxt_ + [draw(st.sampled_from(stable))], "photos": False,
                      "model": "PHSP", "alias": False, "params": []}]
        elif draw(st.integers(0, 5)) == 0:
            lines = []
        else:
            nl = draw(st.integers(1, max_lines))
            lines = []
            for _ in range(nl):
                nd = draw(st.sampled_from(list(range(max_daughters + 1)) * 4 + [7, 9, 11]))
                ds = []
                while len(ds) < nd:
                    if lower and draw(st.integers(0, 2)) > 0:
                        d = draw(st.sampled_from(lower))
                    else:
                        d = draw(st.sampled_from(stable))
                    ds.append(d)
                    if draw(st.integers(0, 3)) == 0 and len(ds) < nd:
                        ds.append(d)  # repeated daughter
                params = [{"t": "num", "v": draw(N.num_literal())}] if draw(st.booleans()) else []
                lines.append({"bf": draw(N.bf_literal()), "d": ds, "photos": draw(st.integers(0, 3)) == 0,
                              "model": draw(st.sampled_from(N.MODELS[:20])), "alias": False, "params": params})
        if lines and draw(st.sampled_from((False,) * 5 + (True,))):
            # two look-alike lines (same bf, daughters, model) in one table are two decay lines
            k = draw(st.integers(0, len(lines) - 1))
            lines.insert(draw(st.integers(0, len(lines))), {**lines[k], "d": list(lines[k]["d"]), "params": [dict(p) for p in lines[k]["params"]]})
        stmts.append({"k": "decay", "m": m, "lines": lines})
    stmts = list(draw(st.permutations(stmts)))
    f = {"stmts": stmts, "layout": [], "crlf": False, "end": False}
    return f

"""Decay-chain helpers: descriptor reader (bracket matching), canonical trees, chain generators."""
from __future__ import annotations

import json

from collections import Counter

from hypothesis import strategies as st

from . import names as N


def balanced(s, open_="(", close=")"):
    d = 0
    for c in s:
        if c == open_:
            d += 1
        elif c == close:
            d -= 1
            if d < 0:
                return False
    return d == 0


def descriptor_safe(name):
    """A name that cannot make a bracket-delimited rendering ambiguous (DESIGN 6.9)."""
    return bool(name) and balanced(name) and not name.startswith("(") and " " not in name


class DescriptorError(Exception):
    pass


def split_top(s, open_="(", close=")"):
    """Split on single spaces at bracket depth 0."""
    out, cur, d = [], [], 0
    for c in s:
        if c == open_:
            d += 1
        elif c == close:
            d -= 1
            if d < 0:
                raise DescriptorError(f"unbalanced {close!r} in {s!r}")
        if c == " " and d == 0:
            out.append("".join(cur))
            cur = []
        else:
            cur.append(c)
    if d != 0:
        raise DescriptorError(f"unbalanced {open_!r} in {s!r}")
    out.append("".join(cur))
    return out


def read_descriptor(s, arrow="->", sub_arrow=None, open_="(", close=")", top=True):
    """Read 'M ARROW d1 (d2 ARROW ...) d3' back into (mother, sorted tuple of children).
    A token is a sub-decay iff it is bracket-enclosed and contains the (sub-)arrow at its depth 0."""
    sub_arrow = arrow if sub_arrow is None else sub_arrow
    a = arrow if top else sub_arrow
    toks = split_top(s, open_, close)
    if a not in toks:
        raise DescriptorError(f"no arrow {a!r} at depth 0 in {s!r}")
    i = toks.index(a)
    if i != 1:
        raise DescriptorError(f"mother is not a single token in {s!r}")
    mother = toks[0]
    children = []
    rest = toks[2:]
    if rest == [""] or rest == []:
        rest = []  # a decay line without daughters renders as 'M -> '
    for t in rest:
        if t == "":
            raise DescriptorError(f"empty token (double space) in {s!r}")
        if len(open_) and t.startswith(open_) and t.endswith(close) and len(t) > len(open_) + len(close):
            inner = t[len(open_):-len(close)]
            try:
                itoks = split_top(inner, open_, close)
            except DescriptorError:
                itoks = []
            if sub_arrow in itoks:
                children.append(read_descriptor(inner, arrow, sub_arrow, open_, close, top=False))
                continue
        children.append(t)
    return (mother, tuple(sorted(children, key=tree_key)))


def tree_key(t):
    return "s:" + t if isinstance(t, str) else "t:" + repr(t)


def canon(mother, children):
    return (mother, tuple(sorted(children, key=tree_key)))


# ---------------------------------------------------------------------------------------------
# single-chain generators (DecayChain class side; C11-C13)
# ---------------------------------------------------------------------------------------------

DESCRIPTOR_NAMES = ("K_1(1270)+", "Upsilon(4S)", "f'_0", "anti-K*0", "D*(2010)+", "K_S0", "pi0", "pi+", "pi-", "gamma",
                    "a_1(1260)+", "chi_c1(1P)", "Lambda_c(2625)+", "anti-B_s0", "rho(2S)0", "K''*+", "eta'", "psi(2S)")


@st.composite
def chain_case(draw, max_decaying=6, max_daughters=4, max_mult=3, names=None, bf=True, meta=None, reuse_depths=True):
    """An acyclic single decay chain: {"mother": m, "decays": [[name, bf, [daughters...], meta], ...]}.
    The list order is the order in which sub-decays are supplied (it matters for flatten)."""
    n = draw(st.integers(1, max_decaying))
    if names is None:
        pool = list(draw(st.lists(st.sampled_from(DESCRIPTOR_NAMES + N.evtgen_safe()[:300]), min_size=n + 3, max_size=n + 6, unique=True)))
    else:
        pool = list(draw(st.lists(names, min_size=n + 3, max_size=n + 6, unique=True)))
    pool = [x for x in pool if descriptor_safe(x)]
    while len(pool) < n + 2:
        pool.append(f"x{len(pool)}")
    decaying = pool[:n]          # rank order: decaying[i] may only contain decaying[j], j > i
    stable = pool[n:]
    decays = []
    used = {decaying[0]}
    for i, m in enumerate(decaying):
        k = draw(st.integers(1, max_daughters))
        if i > 0 and draw(st.sampled_from((False,) * 11 + (True,))):
            k = 0  # a decaying particle whose decay has no daughters at all (e.g. an invisible decay)
        ds = []
        lower = decaying[i + 1:]
        for _ in range(k):
            if lower and draw(st.integers(0, 2)) > 0:
                d = draw(st.sampled_from(lower))
            else:
                d = draw(st.sampled_from(stable))
            mult = draw(st.sampled_from((1, 1, 1, 2, max_mult)))
            ds += [d] * mult
        b = draw(st.one_of(st.floats(1e-6, 1.0, allow_nan=False), st.sampled_from((1.0, 0.0, 0.5, 1e-12)))) if bf else 1.0
        md = draw(meta) if meta is not None else {}
        decays.append([m, b, ds, md])
    # make every decaying particle reachable: attach unreachable ones to a random reachable ancestor of higher rank
    reach = {decaying[0]}
    for i, (m, b, ds, md) in enumerate(decays):
        if m not in reach:
            j = draw(st.integers(0, i - 1))
            # find a reachable one among the first i
            cands = [q for q in range(i) if decays[q][0] in reach]
            j = cands[j % len(cands)]
            decays[j][2].append(m)
            reach.add(m)
        for d in ds:
            if d in decaying:
                reach.add(d)
    share = []
    if n >= 2 and draw(st.sampled_from((False,) * 5 + (True,))):
        # a twin: another particle with exactly the same decay (as D0 and a tagged D0 have), placed beside the original;
        # half of the time both names are given one and the same DecayMode object
        i = draw(st.integers(1, n - 1))
        x, b, ds, md = decays[i]
        y = x + "_tw"
        if descriptor_safe(y) and y not in pool:
            decays.append([y, b, list(ds), json.loads(json.dumps(md))])
            parents = [q for q in range(i) if x in decays[q][2]]
            decays[draw(st.sampled_from(parents))][2].append(y)
            if draw(st.booleans()):
                share.append([x, y])
    order = draw(st.permutations(list(range(len(decays)))))
    out = {"mother": decaying[0], "decays": [decays[i] for i in order]}
    if share:
        out["share"] = share
    return out


def build_chain(case):
    from decaylanguage import DecayChain, DecayMode

    decays = {}
    same = {}
    for x, y in case.get("share", ()):
        same[x], same[y] = y, x
    for m, b, ds, md in case["decays"]:
        if same.get(m) in decays:
            decays[m] = decays[same[m]]  # two particles given one and the same DecayMode object
        else:
            decays[m] = DecayMode(b, list(ds), **md)
    return DecayChain(case["mother"], decays)


def ref_tree(case, stable=frozenset()):
    """(mother, children) tree with leaves as names; particles in `stable` are leaves."""
    table = {m: ds for m, _, ds, _ in case["decays"]}

    def rec(m):
        ch = []
        for d in table[m]:
            if d in table and d not in stable:
                ch.append(rec(d))
            else:
                ch.append(d)
        return canon(m, ch)

    return rec(case["mother"])


def ref_flatten(case, stable=frozenset()):
    """-> (Counter of leaves, product of bf with multiplicity) by a recursive walk."""
    table = {m: (b, ds) for m, b, ds, _ in case["decays"]}

    def rec(m):
        b, ds = table[m]
        leaves = Counter()
        prod = b
        for d in ds:
            if d in table and d not in stable:
                l2, p2 = rec(d)
                leaves += l2
                prod *= p2
            else:
                leaves[d] += 1
        return leaves, prod

    return rec(case["mother"])


# ---------------------------------------------------------------------------------------------
# exhaustive shape enumeration (C11-C13)
# ---------------------------------------------------------------------------------------------

SHAPE_NAMES = ("Upsilon(4S)", "D*(2010)+", "K_1(1270)+", "anti-K*0", "f'_0", "K_S0", "chi_c1(1P)")
LEAF_NAMES = ("pi+", "pi-", "gamma", "K''*+", "a_1(1260)+", "e-", "nu_e")
BFS = (0.5, 0.25, 0.125, 0.1, 0.3, 0.7, 0.9)


def enum_shapes(n, max_mult, second_parent=False):
    """All rooted shapes over n decaying particles P0..Pn-1 where Pi (i>=1) hangs below an earlier
    Pj with multiplicity 1..max_mult; optionally Pi also occurs (once) below a second earlier
    particle (the same decaying particle in several places / at several depths)."""
    import itertools

    names = SHAPE_NAMES[:n]
    for parents in itertools.product(*[range(i) for i in range(1, n)]):
        for mults in itertools.product(range(1, max_mult + 1), repeat=n - 1):
            seconds_options = [None]
            if second_parent and n >= 3:
                seconds_options = [None] + [(i, j) for i in range(2, n) for j in range(i) if j != parents[i - 1]]
            for sec in seconds_options:
                decays = []
                for i in range(n):
                    ds = []
                    for c in range(1, n):
                        if parents[c - 1] == i:
                            ds += [names[c]] * mults[c - 1]
                        if sec is not None and sec[0] == c and sec[1] == i:
                            ds.append(names[c])
                    ds.append(LEAF_NAMES[i % len(LEAF_NAMES)])
                    if len(ds) == 1:
                        ds.append(LEAF_NAMES[(i + 3) % len(LEAF_NAMES)])
                    decays.append([names[i], BFS[i], ds, {}])
                yield {"mother": names[0], "decays": decays}


def tree_depth(t):
    if isinstance(t, str):
        return 0
    return 1 + max([tree_depth(c) for c in t[1]] or [0])


def has_repeated_subdecay(t):
    if isinstance(t, str):
        return False
    subs = [c for c in t[1] if not isinstance(c, str)]
    return len(subs) != len(set(subs)) or any(has_repeated_subdecay(c) for c in subs)

"""Recording stand-in for the `goofit` Python module (GooFit itself is not installed and cannot be
fetched).  It exports only GooFit API names -- no model symbol -- and records every constructor call,
so executing the generated script shows (a) that it is valid Python, (b) that every model symbol
it uses was defined earlier in the script, (c) what model it describes."""
import itertools as _it

_REC = {"variables": [], "spin_factors": [], "lineshapes": [], "amplitudes": [], "decayinfo": None}


def _reset():
    for k in ("variables", "spin_factors", "lineshapes", "amplitudes"):
        _REC[k] = []
    _REC["decayinfo"] = None


def _recording():
    return _REC


class Variable:
    def __init__(self, name, value, *rest):
        if not isinstance(name, str):
            raise TypeError("Variable name must be a string")
        self.name, self.value = name, float(value)
        self.rest = tuple(float(x) for x in rest)
        if len(rest) not in (0, 1, 2, 3):
            raise TypeError("Variable(name, value[, error][, lower, upper])")
        self.error = self.rest[0] if len(self.rest) in (1, 3) else None
        self.fixed = len(self.rest) in (0, 2)
        _REC["variables"].append(self)

    def __repr__(self):
        return f"Variable({self.name!r}, {self.value}, {self.rest})"


class _Enum:
    def __init__(self, kind, name):
        self.kind, self.name = kind, name

    def __repr__(self):
        return f"{self.kind}.{self.name}"


class _EnumNS:
    def __init__(self, kind, names):
        self._kind = kind
        for n in names:
            setattr(self, n, _Enum(kind, n))


SF_4Body = _EnumNS("SF_4Body", (
    "DtoPP1_PtoSP2_StoP3P4", "DtoPP1_PtoVP2_VtoP3P4", "DtoV1V2_V1toP1P2_V2toP3P4_S", "DtoV1V2_V1toP1P2_V2toP3P4_P",
    "DtoV1V2_V1toP1P2_V2toP3P4_D", "DtoAP1_AtoVP2_VtoP3P4", "DtoAP1_AtoVP2Dwave_VtoP3P4", "DtoVS_VtoP1P2_StoP3P4",
    "DtoV1P1_V1toV2P2_V2toP3P4", "DtoAP1_AtoSP2_StoP3P4", "DtoTP1_TtoVP2_VtoP3P4", "FF_12_34_L1", "FF_12_34_L2",
    "FF_123_4_L1", "FF_123_4_L2", "ONE"))
FF = _EnumNS("FF", ("BL", "BL_Prime", "BL2"))


class SpinFactor:
    def __init__(self, label, kind, a, b, c, d):
        if not isinstance(kind, _Enum) or kind.kind != "SF_4Body":
            raise TypeError("SpinFactor needs an SF_4Body value")
        self.label, self.kind, self.indices = label, kind.name, (int(a), int(b), int(c), int(d))
        _REC["spin_factors"].append(self)


class _Mass:
    def __init__(self, name):
        self.name = name

    def __repr__(self):
        return self.name


class _Lineshape:
    def __init__(self, kind, **kw):
        self.kind = kind
        self.__dict__.update(kw)
        _REC["lineshapes"].append(self)


def _var(x, what):
    if not isinstance(x, Variable):
        raise TypeError(f"{what} must be a Variable, got {type(x).__name__}")
    return x


def _mass(x):
    if not isinstance(x, _Mass):
        raise TypeError("invariant-mass selector expected")
    return x


class Lineshapes:
    FocusMod = _EnumNS("FocusMod", ("Kpi", "KEta", "I32"))

    @staticmethod
    def RBW(name, mass, width, L, Mpair, ff=None):
        return _Lineshape("RBW", name=name, M=_var(mass, "mass"), W=_var(width, "width"), L=L, mass=_mass(Mpair), ff=ff)

    @staticmethod
    def GSpline(name, mass, width, L, Mpair, ff, radius, extra, spline):
        extra = [_var(v, "spline variable") for v in extra]
        lo, hi, n = spline
        return _Lineshape("GSpline", name=name, M=_var(mass, "mass"), W=_var(width, "width"), L=L, mass=_mass(Mpair), ff=ff, radius=radius,
                          array=extra, spline=(float(lo), float(hi), int(n)))

    @staticmethod
    def kMatrix(name, pterm, is_pole, sA0, sA, s0_prod, s0_scatt, fscat, poles, mass, width, L, Mpair, ff, radius):
        if not isinstance(is_pole, bool):
            raise TypeError("is_pole must be a bool")
        return _Lineshape("kMatrix", name=name, pterm=int(pterm), is_pole=is_pole,
                          scalars=[_var(sA0, "sA_0"), _var(sA, "sA"), _var(s0_prod, "s0_prod"), _var(s0_scatt, "s0_scatt")],
                          f_scatt=[_var(v, "f_scatt") for v in fscat], poles=[_var(v, "IS_poles") for v in poles],
                          M=_var(mass, "mass"), W=_var(width, "width"), L=L, mass=_mass(Mpair), ff=ff, radius=radius)

    @staticmethod
    def FOCUS(name, mod, mass, width, L, Mpair, ff, radius):
        if not isinstance(mod, _Enum) or mod.kind != "FocusMod":
            raise TypeError("FocusMod value expected")
        return _Lineshape("FOCUS", name=name, mod=mod.name, M=_var(mass, "mass"), W=_var(width, "width"), L=L, mass=_mass(Mpair), ff=ff, radius=radius)


class Amplitude:
    def __init__(self, name, re, im, lineshapes, spinfactors, n):
        self.name, self.re, self.im = name, _var(re, "real coefficient"), _var(im, "imaginary coefficient")
        self.lineshapes, self.spinfactors, self.n = list(lineshapes), list(spinfactors), int(n)
        for x in self.lineshapes:
            if not isinstance(x, _Lineshape):
                raise TypeError("lineshape expected")
        for x in self.spinfactors:
            if not isinstance(x, SpinFactor):
                raise TypeError("spin factor expected")
        _REC["amplitudes"].append(self)


class DecayInfo4:
    def __init__(self):
        _REC["decayinfo"] = self


_names = ["Variable", "SF_4Body", "FF", "SpinFactor", "Lineshapes", "Amplitude", "DecayInfo4"]
for _a, _b in _it.permutations("1234", 2):
    globals()[f"M_{_a}{_b}"] = _Mass(f"M_{_a}{_b}")
    _names.append(f"M_{_a}{_b}")
for _a, _b, _c in _it.permutations("1234", 3):
    globals()[f"M_{_a}{_b}_{_c}"] = _Mass(f"M_{_a}{_b}_{_c}")
    _names.append(f"M_{_a}{_b}_{_c}")
__all__ = _names

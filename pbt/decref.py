"""Reference interpreter for the `.dec` AST of decgen.py (DESIGN.md 3.3).

Pure functions over the AST; no lark, no regular expressions on text.  This is the oracle of
the `.dec`-side properties: what every query must answer is computed here from the structure
that was *rendered*, never from parsing text.
"""
from __future__ import annotations

from . import names as N


def defines(f):
    """Define statements, the last definition of a name winning."""
    out = {}
    for s in f["stmts"]:
        if s["k"] == "define":
            out[s["n"]] = float(s["v"])
    return out


def model_aliases(f):
    out = {}
    for s in f["stmts"]:
        if s["k"] == "modelalias":
            out[s["n"]] = (s["model"], s["params"])
    return out


def param_values(params, defs):
    out = []
    for p in params:
        if p["t"] == "num":
            out.append(float(p["v"]))
        else:
            w = p["v"]
            neg = w.startswith("-")
            key = w[1:] if neg else w
            if key in defs:
                out.append(-defs[key] if neg else defs[key])
            else:
                out.append(w)
    return out


def line_details(ln, defs, maliases):
    if ln.get("alias"):
        model, params = maliases[ln["model"]]
    else:
        model, params = ln["model"], ln["params"]
    return {
        "bf": float(ln["bf"]),
        "fs": list(ln["d"]),
        "photos": bool(ln["photos"]),
        "model": model,
        "params": param_values(params, defs),
    }


def decay_tables(f):
    """mother -> list of line details, first block per mother kept (insertion order = file order)."""
    defs, mal = defines(f), model_aliases(f)
    out = {}
    for s in f["stmts"]:
        if s["k"] == "decay" and s["m"] not in out:
            out[s["m"]] = [line_details(ln, defs, mal) for ln in s["lines"]]
    return out


def cc_dict(f):
    out = {}
    for s in f["stmts"]:
        if s["k"] == "chargeconj":
            out[s["a"]] = s["b"]
    return out


def conj_name(name, ccd):
    """Conjugate under the rule of C03: ChargeConj statements read directly, then in reverse,
    otherwise the particle tables (PDG ID negation), otherwise the unknown marker."""
    if name in ccd:
        return ccd[name]
    for a, b in ccd.items():
        if b == name:
            return a
    return N.ref_conj(name)


def copies(f):
    out = {}
    for s in f["stmts"]:
        if s["k"] == "copydecay":
            out[s["new"]] = s["old"]
    return out


def cdecay_subjects(f):
    return sorted(s["x"] for s in f["stmts"] if s["k"] == "cdecay")


def all_tables(f, include_cc=True):
    """-> (ordered list of (mother, origin, lines)) with origin in decay|copy|conj."""
    base = decay_tables(f)
    out = [(m, "decay", lines) for m, lines in base.items()]
    have = dict(base)
    for new, old in copies(f).items():
        if old in base:
            lines = [dict(ln, fs=list(ln["fs"]), params=list(ln["params"])) for ln in base[old]]
            out.append((new, "copy", lines))
            have.setdefault(new, lines)
    if include_cc:
        ccd = cc_dict(f)
        snapshot_have = dict(have)
        for x in cdecay_subjects(f):
            if x in snapshot_have:
                continue
            src = conj_name(x, ccd)
            if src not in snapshot_have:
                continue
            lines = []
            for ln in snapshot_have[src]:
                lines.append(dict(ln, fs=[conj_name(d, ccd) for d in ln["fs"]], params=list(ln["params"])))
            out.append((x, "conj", lines))
    return out


# ---------------------------------------------------------------------------------------------
# C09 / C10 reference recursions, written from the property statements
# ---------------------------------------------------------------------------------------------

def chain(tables, mother, stable=frozenset()):
    """tables: mother -> list of line details.  The chain dictionary C09 describes."""
    info = []
    for ln in tables[mother]:
        fs = []
        for d in ln["fs"]:
            if d in tables and d not in stable:
                fs.append(chain(tables, d, stable))
            else:
                fs.append(d)
        info.append({"bf": ln["bf"], "fs": fs, "model": ln["model"], "model_params": ln["params"]})
    return {mother: info}


def count_nodes(tables, mother, stable=frozenset(), memo=None):
    memo = {} if memo is None else memo
    if mother in memo:
        return memo[mother]
    n = 1
    for ln in tables[mother]:
        n += 1
        for d in ln["fs"]:
            if d in tables and d not in stable:
                n += count_nodes(tables, d, stable, memo)
    memo[mother] = n
    return n


def count_paths(tables, mother, memo=None):
    """Sum over lines of the product over daughters of the daughters' own counts; a daughter
    without decay lines (no table, or an empty one) is stable and counts 1."""
    memo = {} if memo is None else memo
    if mother in memo:
        return memo[mother]
    total = 0
    for ln in tables[mother]:
        prod = 1
        for d in ln["fs"]:
            if d in tables and tables[d]:
                prod *= count_paths(tables, d, memo)
        total += prod
    memo[mother] = total
    return total


def paths(tables, mother, aliases=None):
    """All complete decay paths as canonical trees: (shown_name, sorted tuple of children) where
    a child is a bare name or a tree; decaying aliases are shown under their target."""
    import itertools

    aliases = aliases or {}
    out = []
    shown = aliases.get(mother, mother)
    for ln in tables[mother]:
        options = []
        for d in ln["fs"]:
            if d in tables and tables[d]:
                options.append(paths(tables, d, aliases))
            else:
                options.append([d])
        for combo in itertools.product(*options):
            out.append((shown, tuple(sorted(combo, key=tree_key))))
    return out


def tree_key(t):
    return repr(t) if not isinstance(t, str) else "s:" + t


# ---------------------------------------------------------------------------------------------
# C07: global declarations
# ---------------------------------------------------------------------------------------------

def _int_or_float(text):
    try:
        return int(text)
    except ValueError:
        return float(text)


def _is_number(text):
    try:
        float(text)
        return True
    except ValueError:
        return False


def reference_width_gev(evtgen_name):
    """Reference width of a particle in GeV from the particle package, by PDG ID."""
    from particle import Particle
    from particle.converters import EvtGenName2PDGIDBiMap as B

    return Particle.from_pdgid(int(B._to_map[evtgen_name])).width / 1000.0


def declarations(f):
    """The eleven declaration queries of C07, later declarations winning."""
    st = f["stmts"]
    out = {}
    out["dict_aliases"] = {s["a"]: s["p"] for s in st if s["k"] == "alias"}
    out["dict_charge_conjugates"] = {s["a"]: s["b"] for s in st if s["k"] == "chargeconj"}
    out["dict_definitions"] = {s["n"]: float(s["v"]) for s in st if s["k"] == "define"}
    out["dict_decays2copy"] = {s["new"]: s["old"] for s in st if s["k"] == "copydecay"}
    out["list_charge_conjugate_decays"] = sorted(s["x"] for s in st if s["k"] == "cdecay")
    aliases = out["dict_aliases"]
    props = {}
    for s in st:
        if s["k"] == "particle":
            if s.get("width") is not None:
                w = float(s["width"])
            else:
                w = ("ref", aliases.get(s["n"], s["n"]))
            props[s["n"]] = {"mass": float(s["mass"]), "width": w}
    out["get_particle_property_definitions"] = props
    py = {}
    for s in st:
        if s["k"] == "pythia":
            v = float(s["val"]) if _is_number(s["val"]) else s["val"]
            py.setdefault(s["cmd"], {})[f"{s['module']}:{s['param']}"] = v
    out["dict_pythia_definitions"] = py
    js = {}
    for s in st:
        if s["k"] == "jetset":
            nm, idx = s["name"][:-1].split("(")
            js.setdefault(nm, {})[int(idx)] = _int_or_float(s["v"])
    out["dict_jetset_definitions"] = js
    ls = {}
    repeated = False
    for s in st:
        if s["k"] == "ls":
            key, val, p = "lineshape", s["kind"], s["p"]
        elif s["k"] == "bw":
            key, val, p = "BlattWeisskopf", float(s["v"]), s["p"]
        elif s["k"] == "masslimit":
            key, val, p = s["kind"], float(s["v"]), s["p"]
        elif s["k"] == "incfactor":
            key, val, p = s["kind"], s["yn"] == "yes", s["p"]
        else:
            continue
        if key in ls.setdefault(p, {}):
            repeated = True
        ls[p][key] = val
    out["dict_lineshape_settings"] = "raises" if repeated else ls
    out["list_lineshapePW_definitions"] = [([s["m"], s["d1"], s["d2"]], int(s["i"])) for s in st if s["k"] == "lspw"]
    flags = [s["yes"] for s in st if s["k"] == "photos"]
    out["global_photos_flag"] = 1 if (flags and flags[-1]) else 0
    return out

"""Observation side for DecFileParser: decay tables as plain data, and the canonical snapshot of
every public query (DESIGN.md 3.4)."""
from __future__ import annotations

import contextlib
import io
import warnings

from .harness import Mismatch, impl


def make_parser(text, prop, via_file=None, extra_models=(), include_cc=True, files=None):
    """Construct and parse.  via_file: a directory Path -> the text goes through the file
    constructor; files: list of already written paths."""
    from decaylanguage import DecFileParser

    with impl(prop, "construct"):
        if files is not None:
            p = DecFileParser(*files)
        elif via_file is not None:
            path = via_file / "input.dec"
            path.write_bytes(text.encode("utf-8"))
            p = DecFileParser(str(path))
        else:
            p = DecFileParser.from_string(text)
        if extra_models:
            p.load_additional_decay_models(*extra_models)
    with impl(prop, "parse"), warnings.catch_warnings():
        warnings.simplefilter("ignore")
        p.parse(include_cc) if include_cc is not True else p.parse()
    return p


def norm_params(mp):
    if mp == "" or mp is None:
        return []
    return list(mp)


def observed_tables(p, prop):
    """-> list of (mother, [ {bf, fs, photos, model, params} ]).  Uses the accessors the properties are anchored in
    (_find_decay_modes/_decay_mode_details); if a refactoring removes those private names, the same information is
    taken from the public queries instead (observed_tables_public) -- a missing private name is not a violation."""
    if not (hasattr(p, "_find_decay_modes") and hasattr(p, "_decay_mode_details")):
        return observed_tables_public(p, prop)
    out = []
    with impl(prop, "tables"):
        mothers = list(p.list_decay_mother_names())
        for m in mothers:
            lines = []
            # NB: for a repeated mother name _find_decay_modes returns the first table
            for dm in p._find_decay_modes(m):
                with_kw = p._decay_mode_details(dm, True)
                no_kw = p._decay_mode_details(dm, False)
                photos = with_kw["model"] != no_kw["model"]
                if photos and with_kw["model"] != "PHOTOS " + no_kw["model"]:
                    raise Mismatch(f"{prop}:photos-prefix", f"{with_kw['model']!r} vs {no_kw['model']!r}")
                for k in ("bf", "fs", "model_params"):
                    if with_kw[k] != no_kw[k]:
                        raise Mismatch(f"{prop}:details-unstable", f"{k}: {with_kw[k]!r} vs {no_kw[k]!r}")
                lines.append({
                    "bf": no_kw["bf"],
                    "fs": list(no_kw["fs"]),
                    "photos": photos,
                    "model": no_kw["model"],
                    "params": norm_params(no_kw["model_params"]),
                })
            out.append((m, lines))
    return out


def observed_tables_public(p, prop):
    """Public route: list_decay_modes (daughters), build_decay_chains with every daughter stable (bf, model, parameters),
    print_decay_modes (PHOTOS keyword; rows are matched to lines through the documented descending, tie-stable order)."""
    import re as _re

    out = []
    with impl(prop, "tables(public)"):
        seen = set()
        for m in list(p.list_decay_mother_names()):
            if m in seen:
                out.append((m, out[[x for x, _ in out].index(m)][1]))
                continue
            seen.add(m)
            fss = [list(fs) for fs in p.list_decay_modes(m)]
            stable = {d for fs in fss for d in fs}
            modes = p.build_decay_chains(m, stable_particles=stable)[m]
            lines = [{"bf": d["bf"], "fs": list(d["fs"]), "photos": False, "model": d["model"], "params": norm_params(d["model_params"])} for d in modes]
            if lines:
                buf = io.StringIO()
                with contextlib.redirect_stdout(buf):
                    p.print_decay_modes(m, print_model=True, display_photos_keyword=True)
                rows = [r for r in buf.getvalue().split("\n") if r.strip()]
                order = sorted(range(len(lines)), key=lambda i: -lines[i]["bf"])
                for i, r in zip(order, rows):
                    fields = [x for x in _re.split(r" {2,}", r.strip().rstrip(";")) if x]
                    lines[i]["photos"] = any(f.startswith("PHOTOS ") or f == "PHOTOS" for f in fields[1:])
            out.append((m, lines))
    return out


def same_value(e, o):
    """Exact comparison of a parameter / number: floats must be floats (bool/int/str are not)."""
    if isinstance(e, float):
        return type(o) is float and (o == e)
    return type(o) is type(e) and o == e


def compare_lines(prop, mother, exp_lines, obs_lines):
    if len(exp_lines) != len(obs_lines):
        raise Mismatch(f"{prop}:line-count", f"mother {mother!r}: expected {len(exp_lines)} lines, got {len(obs_lines)}",
                       [l["fs"] for l in exp_lines], [l["fs"] for l in obs_lines])
    for i, (e, o) in enumerate(zip(exp_lines, obs_lines)):
        where = f"mother {mother!r} line {i}"
        if not same_value(e["bf"], o["bf"]):
            raise Mismatch(f"{prop}:bf", where, e["bf"], o["bf"])
        if e["fs"] != o["fs"] or not all(type(x) is str for x in o["fs"]):
            raise Mismatch(f"{prop}:daughters", where, e["fs"], o["fs"])
        if e["photos"] != o["photos"]:
            raise Mismatch(f"{prop}:photos", where, e["photos"], o["photos"])
        if e["model"] != o["model"]:
            raise Mismatch(f"{prop}:model", where, e["model"], o["model"])
        if len(e["params"]) != len(o["params"]) or not all(same_value(a, b) for a, b in zip(e["params"], o["params"])):
            raise Mismatch(f"{prop}:params", where, e["params"], o["params"])


def capture_print(p, prop, mother, **kw):
    buf = io.StringIO()
    with impl(prop, "print_decay_modes"), contextlib.redirect_stdout(buf):
        p.print_decay_modes(mother, **kw)
    return buf.getvalue()


# ---------------------------------------------------------------------------------------------
# canonical snapshot of every public query (C02, C08)
# ---------------------------------------------------------------------------------------------

def _freeze(x):
    """JSON-able, type-preserving canonical form (floats vs ints vs bools vs str kept apart)."""
    if isinstance(x, bool):
        return ["b", x]
    if isinstance(x, int):
        return ["i", int(x)]
    if isinstance(x, float):
        return ["f", repr(x)]
    if isinstance(x, str):
        return str(x)
    if isinstance(x, dict):
        return {"d": [[_freeze(k), _freeze(v)] for k, v in x.items()]}
    if isinstance(x, (list, tuple)):
        return [_freeze(v) for v in x]
    if x is None:
        return None
    return ["o", repr(x)]


def _q(prop, name, fn):
    """A query result, or the exception class it raises (part of the observable behaviour)."""
    try:
        with warnings.catch_warnings():
            warnings.simplefilter("ignore")
            return _freeze(fn())
    except Mismatch:
        raise
    except RecursionError:
        raise
    except Exception as e:  # noqa: BLE001
        return ["raises", type(e).__name__]


def snapshot(p, prop, chain_mothers=(), expand_mothers=()):
    """Everything a user can ask a parsed DecFileParser.  chain_mothers/expand_mothers are chosen
    by the caller from an independent size computation (unbounded unfolding does not terminate on
    the master files)."""
    s = {}
    tabs = observed_tables(p, prop)
    s["tables"] = _freeze([[m, [[l["bf"], l["fs"], l["photos"], l["model"], l["params"]] for l in lines]] for m, lines in tabs])
    s["number_of_decays"] = _q(prop, "n", lambda: p.number_of_decays)
    s["list_decay_modes"] = _q(prop, "ldm", lambda: [p.list_decay_modes(m) for m, _ in tabs])
    for name in ("dict_aliases", "dict_charge_conjugates", "dict_definitions", "dict_decays2copy",
                 "list_charge_conjugate_decays", "get_particle_property_definitions", "dict_pythia_definitions",
                 "dict_jetset_definitions", "dict_lineshape_settings", "list_lineshapePW_definitions",
                 "dict_model_aliases"):
        s[name] = _q(prop, name, getattr(p, name))
    s["global_photos_flag"] = _q(prop, "gpf", lambda: int(p.global_photos_flag()))
    s["chains"] = {m: _q(prop, "chain", lambda m=m: p.build_decay_chains(m)) for m in chain_mothers}
    s["expand"] = {m: _q(prop, "expand", lambda m=m: sorted(p.expand_decay_modes(m))) for m in expand_mothers}
    return s


def diff_snapshots(a, b):
    """First differing top-level key (and a short description), or None."""
    for k in a:
        if k not in b:
            return k, "missing"
        if a[k] != b[k]:
            va, vb = a[k], b[k]
            if isinstance(va, list) and isinstance(vb, list) and len(va) == len(vb):
                for i, (x, y) in enumerate(zip(va, vb)):
                    if x != y:
                        return k, f"[{i}]: {str(x)[:300]} != {str(y)[:300]}"
            if isinstance(va, dict) and isinstance(vb, dict):
                for kk in va:
                    if va.get(kk) != vb.get(kk):
                        return k, f"[{kk}]: {str(va.get(kk))[:300]} != {str(vb.get(kk))[:300]}"
            return k, f"{str(va)[:300]} != {str(vb)[:300]}"
    for k in b:
        if k not in a:
            return k, "extra"
    return None


def compare_tables(prop, p, exp):
    """exp: decref.all_tables() result.  Decay-block mothers must come first and in file order;
    copied / conjugated tables follow in any order.  Every line and field is compared."""
    obs = observed_tables(p, prop)
    exp_decay = [(m, lines) for m, o, lines in exp if o == "decay"]
    exp_other = [(m, lines) for m, o, lines in exp if o != "decay"]
    obs_m = [m for m, _ in obs]
    n_dec = len(exp_decay)
    if obs_m[:n_dec] != [m for m, _ in exp_decay] or sorted(obs_m[n_dec:]) != sorted(m for m, _ in exp_other):
        raise Mismatch(f"{prop}:mothers", "decay mother names / order", [[m, o] for m, o, _ in exp], obs_m)
    with impl(prop, "number_of_decays"):
        n = p.number_of_decays
    if n != len(exp):
        raise Mismatch(f"{prop}:number_of_decays", "", len(exp), n)
    obs_d = dict(obs)
    for m, lines in exp_decay + exp_other:
        compare_lines(prop, m, lines, obs_d[m])
    return obs

"""Pool of small AmpGen option files with different resonance content (C20)."""
KM = "\n".join(
    [f"f_scatt{i} 2 0.{i}1 0" for i in range(5)]
    + [f"IS_p{i}_{c} 2 {i}.{j} 0" for i in range(1, 3) for j, c in enumerate(("pipi", "KK", "4pi", "EtaEta", "EtapEta", "mass"))]
    + ["sA_0 2 -0.15 0", "sA 2 1 0", "s0_prod 2 -1 0", "s0_scatt 2 -3.92 0"])

FILES = {
    "vv-rho": """EventType D0 K- pi+ pi+ pi-
D0_radius 2 0.0037559 0
D0{K*(892)bar0{K-,pi+},rho(770)0{pi+,pi-}}    0    0.196    0.001    0    -0.39    0.006
D0[P]{K*(892)bar0{K-,pi+},rho(770)0{pi+,pi-}}    2    1    0    2    0    0
""",
    "vv-rho-postfit": """EventType D0 K- pi+ pi+ pi-
D0_radius 0 0.0041 0.0002
D0{K*(892)bar0{K-,pi+},rho(770)0{pi+,pi-}}    0    0.211    0.002    0    -0.35    0.004
D0[P]{K*(892)bar0{K-,pi+},rho(770)0{pi+,pi-}}    2    1    0    2    0    0
""",
    "vv-omega": """EventType D0 K- pi+ pi+ pi-
mixing_x 0 0.004 0.001
D0{omega(782)0{pi+,pi-},K*(892)bar0{K-,pi+}}    0    0.5    0.01    0    1.25    0.02
""",
    "a1-spline": """EventType D0 K- pi+ pi+ pi-
a(1)(1260)+::Spline::Min 0.18412
a(1)(1260)+::Spline::Max 1.9
a(1)(1260)+::Spline::N 3
a(1)(1260)+::Spline::Gamma::0 2 0.5 0
a(1)(1260)+::Spline::Gamma::1 2 0.25 0
a(1)(1260)+::Spline::Gamma::2 2 0.125 0
K(1460)bar-::Spline::Min 0.6
K(1460)bar-::Spline::Max 3.0
K(1460)bar-::Spline::N 2
K(1460)bar-::Spline::Gamma::0 2 0.75 0
K(1460)bar-::Spline::Gamma::1 2 0.0625 0
D0{a(1)(1260)+[GSpline.EFF]{rho(1450)0{pi+,pi-},pi+},K-}    0    0.81    0.005    0    -2.6    0.007
D0{K(1460)bar-[GSpline.EFF]{K*(892)bar0{K-,pi+},pi-},pi+}    2    1    0    2    0    0
""",
    "kmatrix-focus": "EventType D0 K- pi+ pi+ pi-\n" + KM + """
D0{KPi00[FOCUS.Kpi]{K-,pi+},PiPi00[kMatrix.pole.1]{pi+,pi-}}    2    1    0    2    0    0
D0{K*(892)bar0{K-,pi+},PiPi10[kMatrix.prod.0]{pi+,pi-}}    0    0.3    0.01    0    1.1    0.02
""",
    "cart-1": """EventType D0 pi+ pi- pi+ pi-
FastCoherentSum::UseCartesian 1
D0{rho(770)0{pi+,pi-},rho(770)0{pi+,pi-}}    0    0.5    0.01    0    -0.75    0.02
D0[D]{rho(770)0{pi+,pi-},rho(1450)0{pi+,pi-}}    0    1.5    0.01    0    0.25    0.02
""",
    "cart-0-partial": """EventType D0 K- pi+ pi+ pi-
FastCoherentSum::UseCartesian 0
D0{K(1)(1270)bar-,pi+}    0    0.36    0.003    0    1.99    0.01
K(1)(1270)bar-{rho(770)0{pi+,pi-},K-}    2    1    0    2    0    0
K(1)(1270)bar-[D]{K*(892)bar0{K-,pi+},pi-}    0    0.76    0.02    0    -0.33    0.02
""",
}
FILES["broken-cart-1"] = """EventType D0 K- pi+ pi+ pi-
FastCoherentSum::UseCartesian 1
D0{K*(892)bar0{K-,pi+},rhoo(770)0{pi+,pi-}}    0    0.5    0.01    0    -0.75    0.02
"""
NAMES = tuple(FILES)
RESONANCES = {
    "vv-rho": {"K*(892)bar0", "rho(770)0"}, "vv-rho-postfit": {"K*(892)bar0", "rho(770)0"}, "vv-omega": {"omega(782)0", "K*(892)bar0"}, "a1-spline": {"a(1)(1260)+", "rho(1450)0", "K(1460)bar-", "K*(892)bar0"},
    "kmatrix-focus": {"KPi00", "PiPi00", "K*(892)bar0", "PiPi10"}, "cart-1": {"rho(770)0", "rho(1450)0"}, "broken-cart-1": {"K*(892)bar0", "pi0"}, "cart-0-partial": {"K(1)(1270)bar-", "rho(770)0", "K*(892)bar0"},
}
OPS = ("read-A", "read-G", "read-P", "cpp", "py")

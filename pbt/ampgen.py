"""AmpGen side: lookup memo (harness instrumentation, DESIGN 4.0), option-file AST, renderer,
reference expansion."""
from __future__ import annotations

import cmath
import itertools
import math

from hypothesis import strategies as st

_MEMO = {}
_INSTALLED = False


def install_memo():
    """Wrap decaylanguage.utils.particleutils.particle_list_from_string_name in a memo keyed by
    (name, size of the loaded particle table).  The current tree's function is what gets called on
    every first use; only repeated identical look-ups are short-cut (pure function of its key)."""
    global _INSTALLED
    if _INSTALLED:
        return
    import decaylanguage.utils.particleutils as pu
    from particle import Particle

    orig = pu.particle_list_from_string_name

    def memo(name):
        key = (name, len(Particle.all()))
        if key not in _MEMO:
            _MEMO[key] = orig(name)
        return list(_MEMO[key])

    memo.__wrapped__ = orig
    pu.particle_list_from_string_name = memo
    _INSTALLED = True


def uninstall_memo():
    global _INSTALLED
    import decaylanguage.utils.particleutils as pu

    f = pu.particle_list_from_string_name
    if hasattr(f, "__wrapped__"):
        pu.particle_list_from_string_name = f.__wrapped__
    _INSTALLED = False


# ---------------------------------------------------------------------------------------------
# pinned particle pool
# ---------------------------------------------------------------------------------------------

import json as _json
from pathlib import Path as _Path

POOL = _json.loads((_Path(__file__).resolve().parent / "data" / "ampgen_pool.json").read_text())
FINAL = POOL["final"]
MOTHERS = POOL["mothers"]
RES = {k: v[0] for k, v in POOL["resonances"].items()}
SPINCLASS = {k: v[1] for k, v in POOL["resonances"].items()}
ALL_IDS = {**FINAL, **MOTHERS, **RES}
LINESHAPES = ("GSpline.EFF", "kMatrix.pole.1", "kMatrix.prod.0", "kMatrix.pole.0", "FOCUS.Kpi", "FOCUS.I32", "FOCUS.KEta", "BW", "LASS", "Flatte",
              "GLASS", "Gounaris.Sakurai", "x_1/2")


def ensure_special_table():
    """Make the special (MINT) particles known to the particle package, as any read does."""
    from particle import Particle

    try:
        Particle.from_pdgid(998101)
    except Exception:
        import decaylanguage

        Particle.load_table(str(_Path(decaylanguage.__file__).parent / "data" / "MintDalitzSpecialParticles.csv"), append=True)


def ref_particle_str(name):
    from particle import Particle

    return str(Particle.from_pdgid(ALL_IDS[name]))


# ---------------------------------------------------------------------------------------------
# option-file AST, renderer, reference expansion (C17)
# ---------------------------------------------------------------------------------------------

def tree_text(t, sp=""):
    s = t["n"]
    if t["d"]:
        tags = [x for x in (t.get("sf"), t.get("ls")) if x]
        if tags:
            s += "[" + ";".join(tags) + "]"
        s += "{" + tree_text(t["d"][0], sp) + "," + sp + tree_text(t["d"][1], sp) + "}"
    return s


def render(a):
    """a: the option-file AST -> text.  Layout integers choose spacing, comments, blank lines."""
    ints = list(a.get("layout") or [0])
    pos = [0]

    def nxt(n):
        v = ints[pos[0] % len(ints)]
        pos[0] += 1
        return v % n

    seps = (" ", "  ", "\t", "     ")
    comments = ("# comment", "#", "# D0{K-,pi+} 2 1 0 2 0 0", "#EventType x y")
    out = []
    if nxt(4) == 0:
        out.append("")
    for item in a["items"]:
        k = item["k"]
        if nxt(5) == 0:
            out.append(comments[nxt(len(comments))])
        if nxt(6) == 0:
            out.append("")
        sep = seps[nxt(len(seps))] if a.get("layout") else " "
        if k == "event":
            line = sep.join(["EventType", *item["p"]])
        elif k == "line":
            line = tree_text(item["t"], " " if nxt(4) == 0 and a.get("layout") else "") + sep + sep.join(item["c"])
        elif k == "var":
            line = sep.join([item["n"], item["flag"], item["v"], item["e"]])
        elif k == "const":
            line = sep.join([item["n"], item["v"]])
        elif k == "cart":
            line = "FastCoherentSum::UseCartesian" + sep + str(item["v"])
        elif k == "output":
            line = "Output" + sep + '"' + item["v"] + '"'
        elif k == "nevents":
            line = "nEvents" + sep + str(item["v"])
        else:
            raise ValueError(k)
        if nxt(6) == 0 and a.get("layout"):
            line += sep + comments[nxt(len(comments))]
        out.append(line)
    nl = "\r\n" if a.get("crlf") else "\n"
    return nl.join(out) + nl


def ref_expand(tree, lines):
    """All complete trees a (partial) tree stands for: cartesian product, file order, left-most slowest."""
    if tree["d"]:
        opts = [ref_expand(d, lines) for d in tree["d"]]
        return [dict(tree, d=list(combo)) for combo in itertools.product(*opts)]
    alts = [x for ln in lines if ln["t"]["n"] == tree["n"] for x in ref_expand(dict(ln["t"], _amp=ln["c"]), lines)]
    return alts if alts else [tree]


def ref_str(t):
    s = ref_particle_str(t["n"])
    if t["d"]:
        sf, ls = t.get("sf"), t.get("ls")
        if ls and sf:
            s += "[" + sf + ";" + ls + "]"
        elif ls:
            s += "[" + ls + "]"
        elif sf:
            s += "[" + sf + "]"
        s += "{" + ",".join(ref_str(d) for d in t["d"]) + "}"
    return s


def ref_amp(c, cartesian):
    a, b = float(c[1]), float(c[4])
    return complex(a, b) if cartesian else a * cmath.exp(1j * b)


def ref_read(a):
    """-> dict(event ids, var rows, const rows, amplitudes [(str, amp, tree)], cartesian)."""
    items = a["items"]
    event = next(i["p"] for i in items if i["k"] == "event")
    carts = [i["v"] for i in items if i["k"] == "cart"]
    cartesian = bool(carts[-1]) if carts else False
    lines = [i for i in items if i["k"] == "line"]
    mother_id = ALL_IDS[event[0]]
    amps = []
    for ln in lines:
        if ALL_IDS[ln["t"]["n"]] == mother_id:
            for t in ref_expand(ln["t"], lines):
                amps.append((ref_str(t), ref_amp(ln["c"], cartesian), t, ln["c"]))
    return {
        "event": [ALL_IDS[p] for p in event],
        "vars": [(i["n"], int(i["flag"]) > 0, float(i["v"]), float(i["e"])) for i in items if i["k"] == "var"],
        "consts": [(i["n"], float(i["v"])) for i in items if i["k"] == "const"],
        "amps": amps,
        "cartesian": cartesian,
    }

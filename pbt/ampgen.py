"""AmpGen side: lookup memo (harness instrumentation, DESIGN 4.0), option-file AST, renderer,
reference expansion."""
from __future__ import annotations

import cmath
import itertools
import math

from hypothesis import strategies as st

_MEMO = {}
_INSTALLED = False


def install_memo():
    """Wrap decaylanguage.utils.particleutils.particle_list_from_string_name in a memo keyed by
    (name, size of the loaded particle table).  The current tree's function is what gets called on
    every first use; only repeated identical look-ups are short-cut (pure function of its key)."""
    global _INSTALLED
    if _INSTALLED:
        return
    import decaylanguage.utils.particleutils as pu
    from particle import Particle

    orig = pu.particle_list_from_string_name

    def memo(name):
        key = (name, len(Particle.all()))
        if key not in _MEMO:
            _MEMO[key] = orig(name)
        return list(_MEMO[key])

    memo.__wrapped__ = orig
    pu.particle_list_from_string_name = memo
    _INSTALLED = True


def uninstall_memo():
    global _INSTALLED
    import decaylanguage.utils.particleutils as pu

    f = pu.particle_list_from_string_name
    if hasattr(f, "__wrapped__"):
        pu.particle_list_from_string_name = f.__wrapped__
    _INSTALLED = False


# ---------------------------------------------------------------------------------------------
# pinned particle pool
# ---------------------------------------------------------------------------------------------

import json as _json
from pathlib import Path as _Path

POOL = _json.loads((_Path(__file__).resolve().parent / "data" / "ampgen_pool.json").read_text())
FINAL = POOL["final"]
MOTHERS = POOL["mothers"]
RES = {k: v[0] for k, v in POOL["resonances"].items()}
SPINCLASS = {k: v[1] for k, v in POOL["resonances"].items()}
ALL_IDS = {**FINAL, **MOTHERS, **RES}
LINESHAPES = ("GSpline.EFF", "kMatrix.pole.1", "kMatrix.prod.0", "kMatrix.pole.0", "FOCUS.Kpi", "FOCUS.I32", "FOCUS.KEta", "BW", "LASS", "Flatte",
              "GLASS", "Gounaris.Sakurai", "x_1/2")


def ensure_special_table():
    """Make the special (MINT) particles known to the particle package, as any read does."""
    from particle import Particle

    try:
        Particle.from_pdgid(998101)
    except Exception:
        import decaylanguage

        Particle.load_table(str(_Path(decaylanguage.__file__).parent / "data" / "MintDalitzSpecialParticles.csv"), append=True)


def ref_particle_str(name):
    from particle import Particle

    return str(Particle.from_pdgid(ALL_IDS[name]))


# ---------------------------------------------------------------------------------------------
# option-file AST, renderer, reference expansion (C17)
# ---------------------------------------------------------------------------------------------

def tree_text(t, sp=""):
    s = t["n"]
    if t["d"]:
        tags = [x for x in (t.get("sf"), t.get("ls")) if x]
        if tags:
            s += "[" + ";".join(tags) + "]"
        s += "{" + tree_text(t["d"][0], sp) + "," + sp + tree_text(t["d"][1], sp) + "}"
    return s


def render(a):
    """a: the option-file AST -> text.  Layout integers choose spacing, comments, blank lines."""
    ints = list(a.get("layout") or [0])
    pos = [0]

    def nxt(n):
        v = ints[pos[0] % len(ints)]
        pos[0] += 1
        return v % n

    seps = (" ", "  ", "\t", "     ")
    comments = ("# comment", "#", "# D0{K-,pi+} 2 1 0 2 0 0", "#EventType x y")
    out = []
    ends_in_comment = False
    if nxt(4) == 0:
        out.append("")
    for item in a["items"]:
        k = item["k"]
        if nxt(5) == 0:
            out.append(comments[nxt(len(comments))])
        if nxt(6) == 0:
            out.append("")
        sep = seps[nxt(len(seps))] if a.get("layout") else " "
        if k == "event":
            line = sep.join(["EventType", *item["p"]])
        elif k == "line":
            line = tree_text(item["t"], " " if nxt(4) == 0 and a.get("layout") else "") + sep + sep.join(item["c"])
        elif k == "var":
            line = sep.join([item["n"], item["flag"], item["v"], item["e"]])
        elif k == "const":
            line = sep.join([item["n"], item["v"]])
        elif k == "cart":
            line = "FastCoherentSum::UseCartesian" + sep + str(item["v"])
        elif k == "output":
            line = "Output" + sep + '"' + item["v"] + '"'
        elif k == "nevents":
            line = "nEvents" + sep + str(item["v"])
        elif k == "cartline":  # single-component line of the grammar (read and ignored)
            line = tree_text(item["t"]) + sep + sep.join(item["c"])
        elif k == "invert":
            line = item["a"] + sep + "=" + sep + item["b"]
        else:
            raise ValueError(k)
        ends_in_comment = False
        if nxt(6) == 0 and a.get("layout"):
            line += sep + comments[nxt(len(comments))]
            ends_in_comment = True
        if a.get("layout") and nxt(5) == 0:
            line = ("  ", "\t", "    ", " \t")[nxt(4)] + line  # indentation
        out.append(line)
    nl = "\r\n" if a.get("crlf") else "\n"
    text = nl.join(out) + nl
    if a.get("nofinal") and ends_in_comment:
        text = text[: -len(nl)]  # a comment may end the text without a line terminator
    return text


def ref_expand(tree, lines):
    """All complete trees a (partial) tree stands for: cartesian product, file order, left-most slowest."""
    if tree["d"]:
        opts = [ref_expand(d, lines) for d in tree["d"]]
        return [dict(tree, d=list(combo)) for combo in itertools.product(*opts)]
    alts = [x for ln in lines if ln["t"]["n"] == tree["n"] for x in ref_expand(dict(ln["t"], _amp=ln["c"]), lines)]
    return alts if alts else [tree]


def ref_str(t):
    s = ref_particle_str(t["n"])
    if t["d"]:
        sf, ls = t.get("sf"), t.get("ls")
        if ls and sf:
            s += "[" + sf + ";" + ls + "]"
        elif ls:
            s += "[" + ls + "]"
        elif sf:
            s += "[" + sf + "]"
        s += "{" + ",".join(ref_str(d) for d in t["d"]) + "}"
    return s


def ref_amp(c, cartesian):
    a, b = float(c[1]), float(c[4])
    return complex(a, b) if cartesian else a * cmath.exp(1j * b)


def ref_read(a):
    """-> dict(event ids, var rows, const rows, amplitudes [(str, amp, tree)], cartesian)."""
    items = a["items"]
    event = next(i["p"] for i in items if i["k"] == "event")
    carts = [i["v"] for i in items if i["k"] == "cart"]
    cartesian = bool(carts[-1]) if carts else False
    lines = [i for i in items if i["k"] == "line"]
    mother_id = ALL_IDS[event[0]]
    amps = []
    for ln in lines:
        if ALL_IDS[ln["t"]["n"]] == mother_id:
            for t in ref_expand(ln["t"], lines):
                amps.append((ref_str(t), ref_amp(ln["c"], cartesian), t, ln["c"]))
    return {
        "event": [ALL_IDS[p] for p in event],
        "vars": [(i["n"], int(i["flag"]) > 0, float(i["v"]), float(i["e"])) for i in items if i["k"] == "var"],
        "consts": [(i["n"], float(i["v"])) for i in items if i["k"] == "const"],
        "amps": amps,
        "cartesian": cartesian,
    }


# ---------------------------------------------------------------------------------------------
# four-body amplitudes over the supported spin structures (C18, C19, C20)
# ---------------------------------------------------------------------------------------------

BY_CLASS = {}
for _n, _c in SPINCLASS.items():
    BY_CLASS.setdefault(_c, []).append(_n)
JCLASS = {"V": 1, "A": 1, "T": 2, "s": 0, "S": 0}

#: spin structure key -> spin-factor enum names, transcribed from the header of upstream's pinned
#: reference output tests/output/DtoKpipipi_v2.cu (cross-checked against that file at run time)
SPINFACTOR_TABLE = {
    "DtoV1V2_V1toP1P2_V2toP3P4": ["DtoV1V2_V1toP1P2_V2toP3P4_S"],
    "DtoV1V2_V1toP1P2_V2toP3P4_P": ["DtoV1V2_V1toP1P2_V2toP3P4_P", "FF_12_34_L1"],
    "DtoV1V2_V1toP1P2_V2toP3P4_D": ["DtoV1V2_V1toP1P2_V2toP3P4_D", "FF_12_34_L2"],
    "DtoV1S2_V1toP1P2_S2toP3P4": ["DtoVS_VtoP1P2_StoP3P4", "FF_12_34_L1"],
    "DtoS1S2_S1toP1P2_S2toP3P4": ["ONE"],
    "DtoA1P1_A1toV2P2_V2toP3P4": ["DtoAP1_AtoVP2Dwave_VtoP3P4", "FF_123_4_L1"],
    "DtoA1P1_A1toV2P2Dwave_V2toP3P4": ["DtoAP1_AtoVP2Dwave_VtoP3P4", "FF_123_4_L1"],
    "DtoA1P1_A1toS2P2_S2toP3P4": ["DtoAP1_AtoSP2_StoP3P4", "FF_123_4_L1"],
    "DtoT1P1_T1toV2P2_V2toP3P4": ["DtoTP1_TtoVP2_VtoP3P4", "FF_123_4_L2"],
    "Dtos1P1_s1toS2P2_S2toP3P4": ["DtoPP1_PtoSP2_StoP3P4"],
    "Dtos1P1_s1toV2P2_V2toP3P4": ["DtoPP1_PtoVP2_VtoP3P4"],
}
STRUCTURES = (  # (key, topology, classes, top tag, resonance-3 tag)
    ("DtoV1V2_V1toP1P2_V2toP3P4", "12_34", ("V", "V"), None, None),
    ("DtoV1V2_V1toP1P2_V2toP3P4", "12_34", ("V", "V"), "S", None),
    ("DtoV1V2_V1toP1P2_V2toP3P4_P", "12_34", ("V", "V"), "P", None),
    ("DtoV1V2_V1toP1P2_V2toP3P4_D", "12_34", ("V", "V"), "D", None),
    ("DtoV1S2_V1toP1P2_S2toP3P4", "12_34", ("V", "S"), None, None),
    ("DtoS1S2_S1toP1P2_S2toP3P4", "12_34", ("S", "S"), None, None),
    ("DtoA1P1_A1toV2P2_V2toP3P4", "1_2_34", ("A", "V"), None, None),
    ("DtoA1P1_A1toV2P2Dwave_V2toP3P4", "1_2_34", ("A", "V"), None, "D"),
    ("DtoA1P1_A1toS2P2_S2toP3P4", "1_2_34", ("A", "S"), None, None),
    ("DtoT1P1_T1toV2P2_V2toP3P4", "1_2_34", ("T", "V"), None, None),
    ("Dtos1P1_s1toS2P2_S2toP3P4", "1_2_34", ("s", "S"), None, None),
    ("Dtos1P1_s1toV2P2_V2toP3P4", "1_2_34", ("s", "V"), None, None),
)
EVENT_TYPES = (("K-", "pi+", "pi+", "pi-"), ("pi+", "pi-", "pi+", "pi-"), ("K+", "K-", "pi+", "pi-"), ("pi+", "K-", "pi-", "pi+"),
               ("pi+", "pi+", "pi-", "pi-"), ("K-", "K+", "K-", "K+"), ("pi0", "pi+", "pi0", "pi-"), ("pi+", "pi+", "pi+", "pi-"),
               ("pi0", "pi0", "pi0", "pi0"))
LS_KINDS = (None, None, "GSpline.EFF", "kMatrix.pole.1", "kMatrix.prod.0", "kMatrix.pole.0", "FOCUS.Kpi", "FOCUS.I32", "FOCUS.KEta")


def min_L(J, j1, j2):
    return min(abs(J - j1 - j2), abs(J + j1 - j2), abs(J - j1 + j2))


@st.composite
def amplitude4(draw, event, structure=None):
    """One complete four-body amplitude: AST tree + the independent description of what it is."""
    key, topo, classes, toptag, r3tag = structure if structure is not None else draw(st.sampled_from(STRUCTURES))
    leaves = list(draw(st.permutations(list(event))))
    r_a = draw(st.sampled_from(sorted(BY_CLASS[classes[0]])))
    r_b = draw(st.sampled_from(sorted(BY_CLASS[classes[1]])))
    ls_a, ls_b = draw(st.sampled_from(LS_KINDS)), draw(st.sampled_from(LS_KINDS))
    sub_tag_b = draw(st.sampled_from((None, None, None, "S", "P", "D")))  # orbital momentum tag on the 2-body resonance
    def leaf(n):
        return {"n": n, "d": []}
    if topo == "12_34":
        sub_tag_a = draw(st.sampled_from((None, None, None, "S", "P", "D")))
        ta = {"n": r_a, "d": [leaf(leaves[0]), leaf(leaves[1])], "sf": sub_tag_a, "ls": ls_a}
        tb = {"n": r_b, "d": [leaf(leaves[2]), leaf(leaves[3])], "sf": sub_tag_b, "ls": ls_b}
        tree = {"n": "D0", "d": [ta, tb], "sf": toptag, "ls": None}
        LA = "SPD".index(sub_tag_a) if sub_tag_a else min_L(JCLASS[classes[0]], 0, 0)
        LB = "SPD".index(sub_tag_b) if sub_tag_b else min_L(JCLASS[classes[1]], 0, 0)
        vertices = [{"name": r_a, "ls": ls_a, "L": LA, "mass": "first"}, {"name": r_b, "ls": ls_b, "L": LB, "mass": "second"}]
    else:
        tb = {"n": r_b, "d": [leaf(leaves[0]), leaf(leaves[1])], "sf": sub_tag_b, "ls": ls_b}
        ta = {"n": r_a, "d": [tb, leaf(leaves[2])], "sf": r3tag, "ls": ls_a}
        casc_tag = draw(st.sampled_from((None, None, None, None, "S", "P", "D")))  # explicit L of the mother's decay
        tree = {"n": "D0", "d": [ta, leaf(leaves[3])], "sf": casc_tag, "ls": None}
        LA = "SPD".index(r3tag) if r3tag else min_L(JCLASS[classes[0]], JCLASS[classes[1]], 0)
        LB = "SPD".index(sub_tag_b) if sub_tag_b else min_L(JCLASS[classes[1]], 0, 0)
        vertices = [{"name": r_a, "ls": ls_a, "L": LA, "mass": "three"}, {"name": r_b, "ls": ls_b, "L": LB, "mass": "first"}]
    enums = list(SPINFACTOR_TABLE[key])
    if topo != "12_34" and tree["sf"] is not None:
        # the spin factor proper stays; the form factor follows the orbital momentum written on the mother
        L_top = "SPD".index(tree["sf"])
        enums = enums[:1] + ([f"FF_123_4_L{L_top}"] if L_top > 0 else [])
    return {"tree": tree, "key": key, "topo": topo, "leaves": leaves, "vertices": vertices, "enums": enums}


def ref_permutations(leaves, event):
    """Brute force: all one-to-one assignments of the amplitude's leaves to positions of identical
    particles in the event type."""
    n = len(event)
    out = []
    for perm in itertools.permutations(range(n), len(leaves)):
        if all(event[p] == leaf for p, leaf in zip(perm, leaves)):
            out.append(tuple(perm))
    return out


def mass_symbol(kind, s):
    if kind == "first":
        return f"M_{s[0]+1}{s[1]+1}"
    if kind == "second":
        return f"M_{s[2]+1}{s[3]+1}"
    return f"M_{s[0]+1}{s[1]+1}_{s[2]+1}"


def spline_items(names, draw):
    """Constant and parameter lines a GSpline lineshape of each name needs."""
    items = []
    for nm in names:
        items.append({"k": "const", "n": nm + "::Spline::Min", "v": "0.18"})
        items.append({"k": "const", "n": nm + "::Spline::Max", "v": "1.9"})
        items.append({"k": "const", "n": nm + "::Spline::N", "v": "4"})
        for i in range(4):
            items.append({"k": "var", "n": f"{nm}::Spline::Gamma::{i}", "flag": "2", "v": f"0.{i+1}5", "e": "0"})
    return items


KMATRIX_ITEMS = tuple(
    [{"k": "var", "n": f"f_scatt{i}", "flag": "2", "v": f"0.{i}1", "e": "0"} for i in range(5)]
    + [{"k": "var", "n": f"IS_p{i}_{c}", "flag": "2", "v": f"{i}.{j}", "e": "0"} for i in range(1, 3) for j, c in enumerate(("pipi", "KK", "4pi", "EtaEta", "EtapEta", "mass"))]
    + [{"k": "var", "n": n, "flag": "2", "v": v, "e": "0"} for n, v in (("sA_0", "-0.15"), ("sA", "1"), ("s0_prod", "-1"), ("s0_scatt", "-3.92"))]
)

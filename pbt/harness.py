"""Common plumbing: seeds, sharding over worker processes, Hypothesis driver, evidence,
replay files, known findings, VIOLATION protocol.  See DESIGN.md section 2.

Exit codes of a check: 0 property held on everything explored; 1 VIOLATION printed;
2 harness/tooling error (never reported as a violation).
"""
from __future__ import annotations

import hashlib
import importlib
import json
import multiprocessing as mp
import os
import sys
import time
import traceback
from collections import Counter
from pathlib import Path

ROOT = Path(__file__).resolve().parent.parent
REPLAYS = ROOT / "replays"
EVIDENCE = Path(os.environ.get("VERIF_EVIDENCE_DIR") or (ROOT / "evidence"))
KNOWN_FILE = ROOT / "known_findings.json"
NPROC = int(os.environ.get("VERIF_NPROC", "16"))


_WORKDIRS = []


def workdir(tag):
    """A scratch directory of this worker process whose *paths are reused* from case to case with new contents
    (code that remembers file contents by path then shows); emptied on every call, removed when the unit ends."""
    import shutil
    import tempfile

    d = Path(tempfile.gettempdir()) / f"verif_{tag}_{os.getpid()}"
    if d.exists():
        shutil.rmtree(d, ignore_errors=True)
    d.mkdir(parents=True, exist_ok=True)
    if d not in _WORKDIRS:
        _WORKDIRS.append(d)
    return d


def _cleanup_workdirs():
    import shutil

    for d in _WORKDIRS:
        shutil.rmtree(d, ignore_errors=True)


class Mismatch(Exception):
    """The code under test disagrees with the oracle.  `kind` is a stable root-cause key."""

    def __init__(self, kind, detail="", expected=None, observed=None):
        super().__init__(f"{kind}: {detail}")
        self.kind = kind
        self.detail = detail
        self.expected = expected
        self.observed = observed


class impl:
    """Context manager around calls into the code under test: any exception it lets escape
    is a property violation of kind `<prefix>:exception:<where>:<type>`, never a harness error."""

    def __init__(self, prop, where, allow=()):
        self.prop, self.where, self.allow = prop, where, tuple(allow)

    def __enter__(self):
        return self

    def __exit__(self, et, ev, tb):
        if et is None or issubclass(et, Mismatch):
            return False
        if self.allow and issubclass(et, self.allow):
            return False
        if issubclass(et, (KeyboardInterrupt, SystemExit, MemoryError)):
            return False
        frames = traceback.extract_tb(tb)
        inner = frames[-1]
        raise Mismatch(
            f"{self.prop}:exception:{self.where}:{et.__name__}",
            f"{et.__name__}: {ev} (at {Path(inner.filename).name}:{inner.lineno} in {inner.name})",
        ) from ev


def jdump(o):
    return json.dumps(o, sort_keys=True, default=repr, ensure_ascii=False)


def digest(case):
    return hashlib.sha1(jdump(case).encode("utf-8", "surrogatepass")).hexdigest()[:16]


def load_known(prop_id):
    if not KNOWN_FILE.exists():
        return []
    data = json.loads(KNOWN_FILE.read_text())
    return [f for f in data.get("findings", []) if f.get("property") == prop_id and f.get("status", "open") == "open"]


class Rec:
    """Per-unit recorder of what was explored."""

    MAX_SAMPLES = 4

    def __init__(self, prop_id, unit, mod=None):
        self.prop_id = prop_id
        self.unit = unit
        self.mod = mod
        self.evaluations = 0
        self.digests = set()
        self.nontrivial_extra = 0  # distinct-by-construction cases of exhaustive enumerations
        self.classes = Counter()
        self.samples = []
        self.known = Counter()
        self.known_samples = {}
        self.failures = {}  # kind -> failure dict (smallest seen)
        self.error = None
        self.exhaustive = []  # names of finite sub-spaces enumerated completely
        self.notes = []
        self._known_defs = load_known(prop_id)

    # -- counting ---------------------------------------------------------------------------
    def case(self, case=None, nontrivial=False, classes=(), sample=None, key=None):
        self.evaluations += 1
        if nontrivial:
            if key is not None:
                self.digests.add(key)
            elif case is not None:
                self.digests.add(digest(case))
            else:
                self.nontrivial_extra += 1
        for c in classes:
            self.classes[c] += 1
        if sample is not None and nontrivial and len(self.samples) < self.MAX_SAMPLES:
            self.samples.append(sample() if callable(sample) else sample)

    def bulk(self, evaluations, nontrivial, classes=None):
        """Account for an exhaustive enumeration whose cases are distinct by construction."""
        self.evaluations += evaluations
        self.nontrivial_extra += nontrivial
        for k, v in (classes or {}).items():
            self.classes[k] += v

    # -- known findings ---------------------------------------------------------------------
    def match_known(self, m, case):
        for f in self._known_defs:
            if f.get("kind") != m.kind:
                continue
            shape = f.get("shape_fn")
            if shape:
                fn = getattr(self.mod, "SHAPES", {}).get(shape) if self.mod else None
                if fn is None or not fn(case):
                    continue
            return f
        return None

    def note_known(self, f, case, m, rendered=None):
        self.known[f["id"]] += 1
        self.known_samples.setdefault(f["id"], {"what": f.get("what", ""), "detail": m.detail, "rendered": rendered})

    # -- failures ---------------------------------------------------------------------------
    def fail(self, m, case, rendered=None):
        size = len(jdump(case))
        prev = self.failures.get(m.kind)
        if prev is None or size < prev["_size"]:
            self.failures[m.kind] = {
                "_size": size,
                "kind": m.kind,
                "detail": m.detail,
                "case": case,
                "rendered": rendered,
                "expected": m.expected,
                "observed": m.observed,
                "unit": self.unit,
            }

    def to_dict(self):
        return {
            "unit": self.unit,
            "evaluations": self.evaluations,
            "digests": sorted(self.digests),
            "nontrivial_extra": self.nontrivial_extra,
            "classes": dict(self.classes),
            "samples": self.samples,
            "known": dict(self.known),
            "known_samples": self.known_samples,
            "failures": self.failures,
            "error": self.error,
            "exhaustive": self.exhaustive,
            "notes": self.notes,
        }


# ---------------------------------------------------------------------------------------------
# Hypothesis driver
# ---------------------------------------------------------------------------------------------

def hyp_settings(max_examples, stateful_step_count=None, shrink=True):
    from hypothesis import HealthCheck, Phase, Verbosity, settings

    phases = [Phase.generate] + ([Phase.shrink] if shrink else [])
    kw = dict(
        max_examples=max_examples,
        database=None,
        deadline=None,
        derandomize=False,
        report_multiple_bugs=False,
        print_blob=False,
        suppress_health_check=list(HealthCheck),
        phases=phases,
        verbosity=Verbosity.quiet,
    )
    if stateful_step_count is not None:
        kw["stateful_step_count"] = stateful_step_count
    return settings(**kw)


def hyp_run(rec, strategy, check, max_examples, seed, render=None, shrink_budget_s=45.0):
    """Run `check(case, rec)` over `max_examples` draws of `strategy` with the given seed.

    `check` raises Mismatch on disagreement.  A Mismatch that matches an open known finding is
    counted and the search continues; any other Mismatch makes Hypothesis shrink (bounded by
    `shrink_budget_s` of wall time, after which shrinking is cut short -- never a verdict) and
    the smallest failing case seen is recorded as the failure.
    """
    import hypothesis
    from hypothesis import given

    state = {"t_fail": None, "stop": False}

    def rendered(case):
        if render is None:
            return None
        try:
            return render(case)
        except Exception:  # rendering for the report only
            return None

    @hypothesis.seed(seed)
    @hyp_settings(max_examples)
    @given(strategy)
    def t(case):
        if state["stop"]:
            return
        try:
            check(case, rec)
        except Mismatch as m:
            f = rec.match_known(m, case)
            if f is not None:
                rec.note_known(f, case, m, rendered(case))
                return
            rec.fail(m, case, rendered(case))
            now = time.time()
            if state["t_fail"] is None:
                state["t_fail"] = now
            elif now - state["t_fail"] > shrink_budget_s:
                state["stop"] = True
            raise

    try:
        t()
    except Mismatch:
        pass
    except BaseException as e:  # noqa: BLE001
        if isinstance(e, (KeyboardInterrupt, SystemExit)):
            raise
        if rec.failures:
            pass  # Flaky etc. after we cut shrinking short: the recorded failure stands
        else:
            rec.error = "".join(traceback.format_exception(type(e), e, e.__traceback__))[-4000:]


def run_machine(rec, machine_cls, max_examples, steps, seed):
    """Run a RuleBasedStateMachine class.  The machine itself calls rec.case()/raises Mismatch."""
    import hypothesis
    from hypothesis.stateful import run_state_machine_as_test

    try:
        run_state_machine_as_test(hypothesis.seed(seed)(machine_cls), settings=hyp_settings(max_examples, steps))
    except Mismatch:
        pass
    except BaseException as e:  # noqa: BLE001
        if isinstance(e, (KeyboardInterrupt, SystemExit)):
            raise
        if not rec.failures:
            rec.error = "".join(traceback.format_exception(type(e), e, e.__traceback__))[-4000:]


# ---------------------------------------------------------------------------------------------
# Worker side
# ---------------------------------------------------------------------------------------------

def _worker(args):
    prop_id, unit, seed, tier = args
    t0 = time.time()
    try:
        sys.setrecursionlimit(20000)
        mod = importlib.import_module(f"pbt.props.{prop_id}")
        rec = Rec(prop_id, unit.get("name", "?"), mod)
        try:
            if unit.get("kind") == "replay":
                try:
                    _replay_unit(mod, unit, rec)
                finally:
                    _cleanup_workdirs()
            else:
                try:
                    mod.run_unit(unit, seed, rec, tier)
                finally:
                    _cleanup_workdirs()
        except Mismatch as m:  # a unit may raise directly (enumerations)
            case = getattr(m, "case", None)
            f = rec.match_known(m, case)
            if f is not None:
                rec.note_known(f, case, m)
            else:
                rec.fail(m, case if case is not None else {"unit": unit})
        out = rec.to_dict()
    except BaseException as e:  # noqa: BLE001
        out = Rec(prop_id, unit.get("name", "?")).to_dict()
        out["error"] = "".join(traceback.format_exception(type(e), e, e.__traceback__))[-4000:]
    out["wall_s"] = round(time.time() - t0, 2)
    return out


def _replay_unit(mod, unit, rec):
    data = json.loads(Path(unit["path"]).read_text())
    case = data["case"]
    try:
        mod.replay(case, rec)
        rec.classes["replay-pass"] += 1
    except Mismatch as m:
        f = rec.match_known(m, case)
        if f is not None:
            rec.note_known(f, case, m, data.get("rendered"))
        else:
            m2 = Mismatch(m.kind, m.detail, m.expected, m.observed)
            rec.fail(m2, case, data.get("rendered"))
            rec.failures[m.kind]["replay_path"] = unit["path"]


# ---------------------------------------------------------------------------------------------
# Parent side
# ---------------------------------------------------------------------------------------------

def _pool_map(jobs, budget_s):
    """Run the jobs on the worker pool.  `budget_s` is a watchdog for the whole run: units still running when it
    expires (e.g. code under test that no longer terminates) are killed and reported as a harness error --
    inconclusive, never a verdict."""
    if not jobs:
        return []
    ctx = mp.get_context("fork")
    n = max(1, min(NPROC, len(jobs)))
    pool = ctx.Pool(n, maxtasksperchild=1)
    try:
        pending = {i: pool.apply_async(_worker, (job,)) for i, job in enumerate(jobs)}
        results = []
        deadline = time.time() + budget_s
        while pending and time.time() < deadline:
            for i in [i for i, r in pending.items() if r.ready()]:
                res = pending.pop(i).get()
                results.append(res)
                if res.get("failures"):
                    # a violation is established already: units that are still running (possibly because the
                    # defect makes the code under test spin) only get a grace period from now on
                    deadline = min(deadline, time.time() + max(180.0, budget_s / 8))
            time.sleep(0.05)
        for i in pending:
            out = Rec(jobs[i][0], jobs[i][1].get("name", "?")).to_dict()
            out["error"] = f"unit {jobs[i][1].get('name')} did not finish within the watchdog budget of {budget_s} s: inconclusive"
            out["wall_s"] = budget_s
            results.append(out)
        return results
    finally:
        pool.terminate()
        pool.join()


def write_replay(prop_id, failure, seed, tier):
    d = REPLAYS / prop_id
    d.mkdir(parents=True, exist_ok=True)
    body = {
        "property": prop_id,
        "kind": failure["kind"],
        "seed": seed,
        "tier": tier,
        "detail": failure["detail"],
        "case": failure["case"],
        "rendered": failure.get("rendered"),
        "expected": failure.get("expected"),
        "observed": failure.get("observed"),
    }
    text = json.dumps(body, indent=1, default=repr, ensure_ascii=False)
    name = "fail-" + hashlib.sha1(jdump(failure["case"]).encode("utf-8", "surrogatepass")).hexdigest()[:12] + ".json"
    p = d / name
    p.write_text(text)
    return p


def run_check(prop_id, tier, seed, replay_path=None):
    t0 = time.time()
    try:
        mod = importlib.import_module(f"pbt.props.{prop_id}")
    except Exception:  # noqa: BLE001
        traceback.print_exc()
        return 2

    jobs = []
    units = []
    if replay_path is not None:
        jobs.append((prop_id, {"kind": "replay", "name": f"replay:{Path(replay_path).name}", "path": str(replay_path)}, seed, tier))
    else:
        rdir = REPLAYS / prop_id
        if rdir.is_dir():
            for p in sorted(rdir.glob("*.json")):
                jobs.append((prop_id, {"kind": "replay", "name": f"replay:{p.name}", "path": str(p)}, seed, tier))
        units = mod.units(tier, seed)
        for k, u in enumerate(units):
            u.setdefault("name", f"unit{k}")
            u.setdefault("shard", k)
            jobs.append((prop_id, u, seed * 1000 + k, tier))

    budget = float(os.environ.get("VERIF_WATCHDOG_S") or getattr(mod, "WATCHDOG_S", {}).get(tier, 1500 if tier == "quick" else 4 * 3600))
    try:
        results = _pool_map(jobs, budget)
    finally:
        if replay_path is None and hasattr(mod, "cleanup"):
            mod.cleanup(units)
    results.sort(key=lambda r: r["unit"])

    errors = [r for r in results if r.get("error")]
    evaluations = sum(r["evaluations"] for r in results)
    digests = set()
    extra = 0
    classes = Counter()
    samples = []
    known = Counter()
    known_samples = {}
    failures = {}
    exhaustive = []
    notes = []
    for r in results:
        digests.update(r["digests"])
        extra += r["nontrivial_extra"]
        classes.update(r["classes"])
        for s in r["samples"]:
            if len(samples) < 8:
                samples.append(s)
        known.update(r["known"])
        for k, v in r["known_samples"].items():
            known_samples.setdefault(k, v)
        for k, f in r["failures"].items():
            if k not in failures or f["_size"] < failures[k]["_size"]:
                failures[k] = f
        exhaustive += r["exhaustive"]
        notes += r["notes"]

    status = 0
    lines = []
    for fid, n in sorted(known.items()):
        ks = known_samples.get(fid, {})
        lines.append(f"KNOWN-FINDING: property={prop_id} {fid} {ks.get('what', '')} (seen {n}x in this run)")
    for k, f in sorted(failures.items()):
        if f.get("replay_path"):
            p = Path(f["replay_path"])
        else:
            p = write_replay(prop_id, f, seed, tier)
        try:
            shown = p.relative_to(ROOT)
        except ValueError:
            shown = p
        lines.append(f"VIOLATION property={prop_id} replay={shown}")
        lines.append(f"  kind={k} detail={str(f['detail'])[:600]}")
        if f.get("rendered"):
            lines.append("  input:\n    " + str(f["rendered"])[:1500].replace("\n", "\n    "))
        status = 1
    if errors:
        for r in errors:
            print(f"HARNESS-ERROR unit={r['unit']}\n{r['error']}", file=sys.stderr)
        if status == 0:
            status = 2

    wall = round(time.time() - t0, 2)
    nontrivial = len(digests) + extra
    if replay_path is None:
        ev = {
            "property_id": prop_id,
            "tier": tier,
            "seed": seed,
            "level": getattr(mod, "LEVEL", "exploration"),
            "coverage": {
                "evaluations": evaluations,
                "distinct_nontrivial": nontrivial,
                "rule": getattr(mod, "RULE", ""),
                "samples": samples if samples else [{"note": "no non-trivial sample recorded"}],
                "classes": dict(sorted(classes.items())),
                "exhaustive": bool(getattr(mod, "EXHAUSTIVE", False)),
                "exhaustive_subspaces": sorted(set(exhaustive)),
                "known_findings_seen": dict(known),
                "units": len(results),
                "unit_wall_s": {r["unit"]: r["wall_s"] for r in results},
                "notes": sorted(set(notes)),
                "harness_errors": len(errors),
            },
            "assumptions": list(getattr(mod, "ASSUMPTIONS", [])),
            "wall_s": wall,
            "violations": len(failures),
        }
        EVIDENCE.mkdir(exist_ok=True)
        (EVIDENCE / f"{prop_id}.json").write_text(json.dumps(ev, indent=1, default=repr, ensure_ascii=False) + "\n")

    for ln in lines:
        print(ln)
    print(
        f"[{prop_id} {tier} seed={seed}] evaluations={evaluations} distinct_nontrivial={nontrivial} "
        f"violations={len(failures)} known={sum(known.values())} errors={len(errors)} wall={wall}s"
    )
    return status


def atheris_unit(prop_id, rec, runs, seed):
    """Coverage-guided pass in a subprocess (pbt/fuzz_atheris.py).  Skipped, and said so in the evidence,
    when the atheris wheel was not installed into /verif/.deps by setup.sh; no claim depends on it."""
    import subprocess
    import tempfile

    deps = ROOT / ".deps"
    if not (deps / "atheris").exists():
        rec.notes.append("atheris not installed in .deps: coverage-guided pass skipped")
        return
    out = Path(tempfile.mkdtemp(prefix="ath_")) / "out.json"
    env = dict(os.environ)
    env["PYTHONPATH"] = env.get("PYTHONPATH", "") + os.pathsep + str(deps)
    r = subprocess.run([sys.executable, "-m", "pbt.fuzz_atheris", prop_id, str(runs), str(seed), str(out)], cwd=str(ROOT), env=env,
                       capture_output=True, text=True, timeout=7200)
    try:
        data = json.loads(out.read_text())
    except Exception:  # noqa: BLE001
        rec.notes.append(f"atheris pass produced no result (exit {r.returncode}): {r.stderr[-300:]}")
        return
    finally:
        import shutil

        shutil.rmtree(out.parent, ignore_errors=True)
        for p in Path(tempfile.gettempdir()).glob("ath_corpus_*"):
            shutil.rmtree(p, ignore_errors=True)
    rec.evaluations += data["valid"]
    rec.nontrivial_extra += 0
    for k, v in data.get("classes", {}).items():
        rec.classes["atheris:" + k] += v
    rec.classes["atheris-execs"] += data["execs"]
    rec.classes["atheris-valid-cases"] += data["valid"]
    rec.notes.append(f"atheris: {data['execs']} executions, {data['valid']} decoded into valid cases, {data['nontrivial']} non-trivial")
    f = data.get("failure")
    if f:
        rec.fail(Mismatch(f["kind"], f["detail"], f.get("expected"), f.get("observed")), f["case"])


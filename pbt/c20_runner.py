"""Executes one C20 action (or a history of actions) and prints its canonical result as JSON.
Used both in fresh interpreters (python -m pbt.c20_runner ...) and inside forked children."""
from __future__ import annotations

import json
import re
import sys

ANSI = re.compile(r"\x1b\[[0-9;]*m")


def canonical_text(text):
    text = ANSI.sub("", text)
    return [l for l in text.split("\n") if not l.startswith("Generated on ")]


def run_action(op, path):
    if op.startswith("read"):
        from decaylanguage.modeling.amplitudechain import AmplitudeChain
        from decaylanguage.modeling.goofit import GooFitChain, GooFitPyChain

        cls = {"A": AmplitudeChain, "G": GooFitChain, "P": GooFitPyChain}[op[-1]]
        r = cls.read_ampgen(path)
        if op[-1] == "A":
            lines, pars, consts, states = r
        else:
            lines, states = r
            pars, consts = cls.pars, cls.consts
        return {
            "lines": [[str(l), repr(l.amp), repr(l.err), bool(l.fix)] for l in lines],
            "pars": [[n, bool(row["fix"]), repr(float(row["value"])), repr(float(row["error"]))] for n, row in pars.iterrows()],
            "consts": [[n, repr(float(row["value"]))] for n, row in consts.iterrows()],
            "states": [str(s) for s in states],
        }
    from decaylanguage.modeling.ampgen2goofit import ampgen2goofit, ampgen2goofitpy

    text = (ampgen2goofit if op == "cpp" else ampgen2goofitpy)(path, ret_output=True)
    return {"text": canonical_text(text)}


def main(argv):
    actions = json.loads(argv[0])
    out = []
    for op, path in actions:
        try:
            out.append(run_action(op, path))
        except Exception as e:  # noqa: BLE001 -- a read that fails is part of the observable behaviour
            out.append({"exception": type(e).__name__})
    sys.stdout.write(json.dumps(out))


if __name__ == "__main__":
    main(sys.argv[1:])

#!/bin/bash
# Offline setup: make sure hypothesis is importable in /venv, byte-compile-check the framework.
set -e
cd "$(dirname "$0")"
if ! /venv/bin/python -c "import hypothesis" 2>/dev/null; then
  /venv/bin/pip install --no-index --find-links /opt/veriftools/wheels hypothesis
fi
/venv/bin/python -c "import hypothesis, lark, particle; print('hypothesis', hypothesis.__version__)"
# optional coverage-guided pass (thorough tier of C01/C06 only); no claim depends on it
if [ ! -d .deps/atheris ]; then
  /venv/bin/pip install -q --no-index --find-links /opt/veriftools/wheels --target .deps atheris >/dev/null 2>&1 || echo "atheris wheel not installable: thorough tier skips the coverage-guided pass"
fi
PYTHONPATH=/repo/src:$PWD PYTHONDONTWRITEBYTECODE=1 /venv/bin/python - <<'PY'
import importlib, pkgutil, pbt.props
for m in pkgutil.iter_modules(pbt.props.__path__):
    importlib.import_module("pbt.props." + m.name)
import decaylanguage
print("framework imports ok; decaylanguage from", decaylanguage.__file__)
PY
command -v dot >/dev/null && echo "dot: $(dot -V 2>&1)" || echo "WARNING: graphviz dot not found (C15 will report a harness error)"
